//! `facts <src-dir> <out.lean> [<out.json>]`
//!
//! Parses every `*.rs` file below `<src-dir>` with `syn` and emits plain data
//! ("facts, not judgement") about the program text as a Lean 4 source file.
//! cfg attributes are never evaluated: every branch is scanned.  Macro bodies
//! and macro invocation arguments are scanned as raw token trees.

mod render;

use proc_macro2::{Delimiter, Span, TokenStream, TokenTree};
use quote::ToTokens;
use render::{render, truncate, KEYWORDS};
use std::collections::{BTreeMap, HashSet};
use std::fmt::Write as _;
use std::path::{Path, PathBuf};
use syn::parse::Parser;
use syn::punctuated::Punctuated;
use syn::visit::{self, Visit};
use syn::{AttrStyle, Attribute, Expr, Item, Meta, Token, Type, UseTree};

// ---------------------------------------------------------------- name tables

const LINT_LEVELS: &[&str] = &["allow", "warn", "deny", "forbid", "expect"];
const UNSAFE_ATTRS: &[&str] = &[
    "no_mangle",
    "export_name",
    "link_section",
    "link",
    "link_name",
    "naked",
    "used",
    "global_allocator",
    "target_feature",
];
const CONV: &[&str] = &[
    "from_le_bytes",
    "to_le_bytes",
    "from_be_bytes",
    "to_be_bytes",
    "from_ne_bytes",
    "to_ne_bytes",
    "to_be",
    "from_be",
    "to_le",
    "from_le",
    "swap_bytes",
    "reverse_bits",
    "transmute",
    "transmute_copy",
    "align_to",
    "align_to_mut",
    "read_unaligned",
    "write_unaligned",
    "from_raw_parts",
    "from_raw_parts_mut",
    "read_volatile",
    "from_bits",
    "to_bits",
];
const PTR_NAMES: &[&str] = &[
    "as_ptr",
    "as_mut_ptr",
    "cast",
    "offset",
    "byte_add",
    "addr_of",
    "addr_of_mut",
];
const TARGET_KEYS: &[&str] = &["target_endian", "target_pointer_width", "target_has_atomic"];
const INT_TYPES: &[&str] = &[
    "usize", "isize", "u8", "u16", "u32", "u64", "u128", "i8", "i16", "i32", "i64", "i128",
];
const GLOBAL_IDENTS: &[&str] = &[
    "Cell",
    "RefCell",
    "UnsafeCell",
    "OnceCell",
    "OnceLock",
    "LazyCell",
    "LazyLock",
    "Lazy",
    "Once",
    "Mutex",
    "RwLock",
    "Condvar",
];
const GLOBAL_MACROS: &[&str] = &["thread_local", "lazy_static"];
const ALLOC_IDENTS: &[&str] = &[
    "alloc", "Vec", "VecDeque", "Box", "String", "Rc", "Arc", "BTreeMap", "HashMap", "HashSet",
    "Cow",
];
const ALLOC_MACROS: &[&str] = &["vec", "format"];
const ALLOC_METHODS: &[&str] = &[
    "to_vec",
    "to_owned",
    "to_string",
    "into_boxed_slice",
    "collect",
    "into_owned",
    "with_capacity",
    "push_str",
];

const DETAIL_MAX: usize = 120;

// ---------------------------------------------------------------------- facts

#[derive(Clone, Debug, PartialEq, Eq, PartialOrd, Ord)]
struct Fact {
    file: String,
    line: usize,
    kind: String,
    detail: String,
    test: bool,
    cfg: String,
}

fn line(span: Span) -> usize {
    span.start().line
}

fn ident_name(id: &proc_macro2::Ident) -> String {
    let s = id.to_string();
    match s.strip_prefix("r#") {
        Some(r) => r.to_string(),
        None => s,
    }
}

// ------------------------------------------------------- token tree utilities

fn is_punct(tt: Option<&TokenTree>, ch: char) -> bool {
    matches!(tt, Some(TokenTree::Punct(p)) if p.as_char() == ch)
}

fn as_ident(tt: Option<&TokenTree>) -> Option<String> {
    match tt {
        Some(TokenTree::Ident(i)) => Some(ident_name(i)),
        _ => None,
    }
}

/// `v[k]`, `v[k+1]` are the two colons of a `::`.
fn is_sep(v: &[TokenTree], k: usize) -> bool {
    matches!(v.get(k), Some(TokenTree::Punct(p)) if p.as_char() == ':' && p.spacing() == proc_macro2::Spacing::Joint)
        && is_punct(v.get(k + 1), ':')
}

/// Does any identifier of `names` occur (recursively) in the stream?
fn mentions_ident(ts: TokenStream, names: &[&str]) -> bool {
    ts.into_iter().any(|tt| match tt {
        TokenTree::Ident(i) => names.contains(&ident_name(&i).as_str()),
        TokenTree::Group(g) => mentions_ident(g.stream(), names),
        _ => false,
    })
}

/// Does the token sequence `feature = "std"` occur (recursively) in the stream?
fn mentions_std_feature(ts: TokenStream) -> bool {
    let v: Vec<TokenTree> = ts.into_iter().collect();
    for (i, tt) in v.iter().enumerate() {
        match tt {
            TokenTree::Group(g) => {
                if mentions_std_feature(g.stream()) {
                    return true;
                }
            }
            TokenTree::Ident(id) if id == "feature" => {
                if is_punct(v.get(i + 1), '=') {
                    if let Some(TokenTree::Literal(l)) = v.get(i + 2) {
                        if l.to_string() == "\"std\"" {
                            return true;
                        }
                    }
                }
            }
            _ => {}
        }
    }
    false
}

/// Count `unsafe` identifier tokens per line (recursively).
fn raw_unsafe_lines(ts: TokenStream, acc: &mut BTreeMap<usize, usize>) {
    for tt in ts {
        match tt {
            TokenTree::Ident(i) if i == "unsafe" => *acc.entry(line(i.span())).or_default() += 1,
            TokenTree::Group(g) => raw_unsafe_lines(g.stream(), acc),
            _ => {}
        }
    }
}

/// Drop leading `#[..]` / `#![..]` attributes from a token stream.
fn strip_attrs(ts: TokenStream) -> TokenStream {
    let v: Vec<TokenTree> = ts.into_iter().collect();
    let mut i = 0;
    loop {
        if !is_punct(v.get(i), '#') {
            break;
        }
        let mut j = i + 1;
        if is_punct(v.get(j), '!') {
            j += 1;
        }
        match v.get(j) {
            Some(TokenTree::Group(g)) if g.delimiter() == Delimiter::Bracket => i = j + 1,
            _ => break,
        }
    }
    v[i..].iter().cloned().collect()
}

/// Best-effort operand of an `as` seen in a raw token tree: the postfix chain
/// (`a.b(c)[d]`, `T::f(x)`, `(expr)`, literal) that ends right before the `as`.
fn cast_source(before: &[TokenTree]) -> TokenStream {
    let mut k = before.len();
    let mut last_atom = false; // the token after position k is an identifier / literal
    while k > 0 {
        let ok = match &before[k - 1] {
            TokenTree::Group(g) => {
                last_atom = false;
                matches!(g.delimiter(), Delimiter::Parenthesis | Delimiter::Bracket | Delimiter::None)
            }
            TokenTree::Ident(id) => {
                let atom = !last_atom && !KEYWORDS.contains(&ident_name(id).as_str());
                last_atom = true;
                atom
            }
            TokenTree::Literal(_) => {
                let atom = !last_atom;
                last_atom = true;
                atom
            }
            TokenTree::Punct(p) => {
                last_atom = false;
                matches!(p.as_char(), '.' | ':' | '$')
            }
        };
        if !ok {
            break;
        }
        k -= 1;
    }
    before[k..].iter().cloned().collect()
}

// ----------------------------------------------------------- attribute helpers

fn attr_text(a: &Attribute) -> String {
    let bang = if matches!(a.style, AttrStyle::Inner(_)) { "!" } else { "" };
    format!("#{}[{}]", bang, render(a.meta.to_token_stream(), 400))
}

fn meta_list_tokens(m: &Meta) -> TokenStream {
    match m {
        Meta::List(l) => l.tokens.clone(),
        _ => TokenStream::new(),
    }
}

/// A cfg predicate that can only hold when `test` is set.
fn pred_requires_test(m: &Meta) -> bool {
    match m {
        Meta::Path(p) => p.is_ident("test"),
        Meta::List(l) => {
            let subs = match Punctuated::<Meta, Token![,]>::parse_terminated.parse2(l.tokens.clone()) {
                Ok(s) => s,
                Err(_) => return false,
            };
            if l.path.is_ident("all") {
                subs.iter().any(pred_requires_test)
            } else if l.path.is_ident("any") {
                !subs.is_empty() && subs.iter().all(pred_requires_test)
            } else {
                false
            }
        }
        Meta::NameValue(_) => false,
    }
}

fn is_test_attr(a: &Attribute) -> bool {
    if a.path().is_ident("test") {
        return true;
    }
    if a.path().is_ident("cfg") {
        if let Ok(m) = a.parse_args::<Meta>() {
            return pred_requires_test(&m);
        }
    }
    false
}

fn is_cfg_like(a: &Attribute) -> bool {
    a.path().is_ident("cfg") || a.path().is_ident("cfg_attr")
}

fn is_std_gate(a: &Attribute) -> bool {
    is_cfg_like(a) && mentions_std_feature(meta_list_tokens(&a.meta))
}

fn item_attrs(i: &Item) -> &[Attribute] {
    match i {
        Item::Const(x) => &x.attrs,
        Item::Enum(x) => &x.attrs,
        Item::ExternCrate(x) => &x.attrs,
        Item::Fn(x) => &x.attrs,
        Item::ForeignMod(x) => &x.attrs,
        Item::Impl(x) => &x.attrs,
        Item::Macro(x) => &x.attrs,
        Item::Mod(x) => &x.attrs,
        Item::Static(x) => &x.attrs,
        Item::Struct(x) => &x.attrs,
        Item::Trait(x) => &x.attrs,
        Item::TraitAlias(x) => &x.attrs,
        Item::Type(x) => &x.attrs,
        Item::Union(x) => &x.attrs,
        Item::Use(x) => &x.attrs,
        _ => &[],
    }
}

fn expr_attrs(e: &Expr) -> &[Attribute] {
    match e {
        Expr::Array(x) => &x.attrs,
        Expr::Assign(x) => &x.attrs,
        Expr::Async(x) => &x.attrs,
        Expr::Await(x) => &x.attrs,
        Expr::Binary(x) => &x.attrs,
        Expr::Block(x) => &x.attrs,
        Expr::Break(x) => &x.attrs,
        Expr::Call(x) => &x.attrs,
        Expr::Cast(x) => &x.attrs,
        Expr::Closure(x) => &x.attrs,
        Expr::Const(x) => &x.attrs,
        Expr::Continue(x) => &x.attrs,
        Expr::Field(x) => &x.attrs,
        Expr::ForLoop(x) => &x.attrs,
        Expr::Group(x) => &x.attrs,
        Expr::If(x) => &x.attrs,
        Expr::Index(x) => &x.attrs,
        Expr::Infer(x) => &x.attrs,
        Expr::Let(x) => &x.attrs,
        Expr::Lit(x) => &x.attrs,
        Expr::Loop(x) => &x.attrs,
        Expr::Macro(x) => &x.attrs,
        Expr::Match(x) => &x.attrs,
        Expr::MethodCall(x) => &x.attrs,
        Expr::Paren(x) => &x.attrs,
        Expr::Path(x) => &x.attrs,
        Expr::Range(x) => &x.attrs,
        Expr::RawAddr(x) => &x.attrs,
        Expr::Reference(x) => &x.attrs,
        Expr::Repeat(x) => &x.attrs,
        Expr::Return(x) => &x.attrs,
        Expr::Struct(x) => &x.attrs,
        Expr::Try(x) => &x.attrs,
        Expr::TryBlock(x) => &x.attrs,
        Expr::Tuple(x) => &x.attrs,
        Expr::Unary(x) => &x.attrs,
        Expr::Unsafe(x) => &x.attrs,
        Expr::While(x) => &x.attrs,
        Expr::Yield(x) => &x.attrs,
        _ => &[],
    }
}

fn peel_type(t: &Type) -> &Type {
    match t {
        Type::Paren(p) => peel_type(&p.elem),
        Type::Group(g) => peel_type(&g.elem),
        _ => t,
    }
}

// -------------------------------------------------------------------- scanner

struct Scan<'a> {
    file: &'a str,
    facts: Vec<Fact>,
    cfg: Vec<String>,
    test: usize,
    /// positions of std-gating attributes already reported with a description
    gates_seen: HashSet<(usize, usize)>,
}

impl<'a> Scan<'a> {
    fn emit(&mut self, line: usize, kind: &str, detail: impl AsRef<str>) {
        self.facts.push(Fact {
            file: self.file.to_string(),
            line,
            kind: kind.to_string(),
            detail: truncate(detail.as_ref(), DETAIL_MAX),
            test: self.test > 0,
            cfg: self.cfg.join(" && "),
        });
    }

    // ---- shared classification (used by the AST visitor and the token scanner)

    /// Facts that depend on a single name (path segment, method name, raw ident).
    fn name_facts(&mut self, name: &str, ln: usize, conv_detail: Option<&str>) {
        if GLOBAL_IDENTS.contains(&name) || name.starts_with("Atomic") {
            self.emit(ln, "global", name);
        }
        if ALLOC_IDENTS.contains(&name) || ALLOC_METHODS.contains(&name) {
            self.emit(ln, "alloc", name);
        }
        if PTR_NAMES.contains(&name) {
            self.emit(ln, "ptr", name);
        }
        if CONV.contains(&name) {
            self.emit(ln, "conv", conv_detail.unwrap_or(name));
        }
    }

    /// Facts about a `a::b::c` path.  `turbofish` is `Some("usize")` when the
    /// last segment carries `::<usize>` / `::<isize>`.
    fn path_facts(&mut self, segs: &[String], leading: bool, ln: usize, turbofish: Option<&str>) {
        if segs.is_empty() {
            return;
        }
        let lead = if leading { "::" } else { "" };
        let text = format!("{}{}", lead, segs.join("::"));
        if segs[0] == "std" {
            self.emit(ln, "std_path", truncate(&text, 80));
        }
        // references into the crate's own module tree (use items, expression / type / macro paths): the
        // edges of the module graph the portable-path closure of C16 is computed over
        if segs[0] == "crate" && segs.len() >= 2 {
            self.emit(ln, "crate_path", truncate(&text, 80));
        }
        // `super::m::..` written in a top-level module file names `crate::m::..` (inside an inline module it may
        // name a sibling instead; recording the edge anyway is the conservative choice)
        if segs[0] == "super" && segs.len() >= 2 && !self.file.contains('/') && segs[1] != "*" {
            self.emit(ln, "crate_path", truncate(&format!("crate::{}", segs[1..].join("::")), 80));
        }
        if segs.len() > 1 && segs.iter().any(|s| s == "ptr") {
            self.emit(ln, "ptr", &text);
        }
        let last = segs[segs.len() - 1].as_str();
        let n = segs.len();
        let sens_const = n >= 2
            && matches!(
                (segs[n - 2].as_str(), last),
                ("usize", "MAX") | ("usize", "BITS") | ("usize", "MIN") | ("isize", "MAX") | ("isize", "MIN") | ("isize", "BITS")
            );
        if sens_const || segs.iter().any(|s| s == "isize") {
            self.emit(ln, "usize_sens", &text);
        }
        if let Some(t) = turbofish {
            if last == "size_of" || last == "align_of" {
                self.emit(ln, "usize_sens", format!("{}::<{}>", text, t));
            }
        }
        // a bare lower-case identifier (`offset`, `cast`, `collect` used as a local variable / parameter name) is
        // not a call of the like-named method: method calls and qualified paths are reported, bare names are not
        let bare = segs.len() == 1 && !leading;
        for (i, s) in segs.iter().enumerate() {
            let upto = format!("{}{}", lead, segs[..=i].join("::"));
            let cd = if i > 0 || leading { Some(upto.as_str()) } else { None };
            if bare && (PTR_NAMES.contains(&s.as_str()) || ALLOC_METHODS.contains(&s.as_str())) {
                continue;
            }
            self.name_facts(s, ln, cd);
        }
    }

    /// Facts about a macro invocation `path!(tokens)`.
    fn macro_facts(&mut self, segs: &[String], leading: bool, ln: usize, tokens: &TokenStream) {
        let text = format!("{}{}", if leading { "::" } else { "" }, segs.join("::"));
        self.emit(ln, "macro", &text);
        let last = segs.last().map(String::as_str).unwrap_or("");
        if GLOBAL_MACROS.contains(&last) {
            self.emit(ln, "global", last);
        }
        if ALLOC_MACROS.contains(&last) {
            self.emit(ln, "alloc", last);
        }
        if last == "cfg" {
            let pred = render(tokens.clone(), 200);
            if mentions_ident(tokens.clone(), TARGET_KEYS) {
                self.emit(ln, "target_cfg", &pred);
            }
            if mentions_std_feature(tokens.clone()) {
                self.emit(ln, "std_gate", format!("cfg!({}) :: macro", pred));
            }
        }
    }

    /// Facts about one attribute (lint levels, link-affecting attributes, target cfgs).
    fn attr_facts(&mut self, a: &Attribute) {
        let style = if matches!(a.style, AttrStyle::Inner(_)) { "inner" } else { "outer" };
        let ln = line(a.pound_token.span);
        let whole = render(a.meta.to_token_stream(), 400);
        self.meta_facts(&a.meta, style, &whole, ln, false);
        if is_std_gate(a) {
            let pos = (ln, a.pound_token.span.start().column);
            if self.gates_seen.insert(pos) {
                let t = attr_text(a);
                self.emit(ln, "std_gate", format!("{} :: ?", t));
            }
        }
    }

    fn meta_facts(&mut self, m: &Meta, style: &str, whole: &str, ln: usize, wrapped: bool) {
        let name = match m.path().get_ident() {
            Some(i) => ident_name(i),
            None => m.path().segments.last().map(|s| ident_name(&s.ident)).unwrap_or_default(),
        };
        let name = name.as_str();
        if LINT_LEVELS.contains(&name) && matches!(m, Meta::List(_)) {
            let d = if wrapped {
                format!("{} {}", style, whole)
            } else {
                format!("{} {}({})", style, name, render(meta_list_tokens(m), 400))
            };
            self.emit(ln, "lint", d);
        }
        if UNSAFE_ATTRS.contains(&name) {
            self.emit(ln, "unsafe_attr", if wrapped { whole.to_string() } else { render(m.to_token_stream(), 400) });
        }
        match name {
            "unsafe" => {
                // `#[unsafe(no_mangle)]`
                self.emit(ln, "unsafe", "attr");
                if let Meta::List(l) = m {
                    if let Ok(inner) = l.parse_args::<Meta>() {
                        let w = format!("unsafe({})", render(inner.to_token_stream(), 400));
                        self.meta_facts(&inner, style, if wrapped { whole } else { &w }, ln, true);
                    }
                }
            }
            "cfg" => {
                let toks = meta_list_tokens(m);
                if mentions_ident(toks.clone(), TARGET_KEYS) {
                    self.emit(ln, "target_cfg", render(toks, 200));
                }
            }
            "cfg_attr" => {
                if let Meta::List(l) = m {
                    if let Ok(parts) = l.parse_args_with(Punctuated::<Meta, Token![,]>::parse_terminated) {
                        for (i, part) in parts.iter().enumerate() {
                            if i == 0 {
                                if mentions_ident(part.to_token_stream(), TARGET_KEYS) {
                                    self.emit(ln, "target_cfg", render(part.to_token_stream(), 200));
                                }
                            } else {
                                self.meta_facts(part, style, whole, ln, true);
                            }
                        }
                    }
                }
            }
            _ => {}
        }
    }

    /// Push the cfg context of `attrs`, report std gates, run `f`, pop.
    fn with_attrs(&mut self, attrs: &[Attribute], desc: &dyn Fn() -> String, f: impl FnOnce(&mut Self)) {
        let mut pushed = 0;
        let mut test = false;
        for a in attrs {
            if is_cfg_like(a) {
                self.cfg.push(render(a.meta.to_token_stream(), 400));
                pushed += 1;
            }
            if is_test_attr(a) {
                test = true;
            }
        }
        if test {
            self.test += 1;
        }
        for a in attrs {
            if is_std_gate(a) {
                let ln = line(a.pound_token.span);
                self.gates_seen.insert((ln, a.pound_token.span.start().column));
                let d = format!("{} :: {}", attr_text(a), desc());
                self.emit(ln, "std_gate", d);
            }
        }
        f(self);
        if test {
            self.test -= 1;
        }
        for _ in 0..pushed {
            self.cfg.pop();
        }
    }

    // ---- raw token tree scanner (macro bodies, macro arguments, verbatim syntax)

    fn scan_tokens(&mut self, ts: TokenStream) {
        let v: Vec<TokenTree> = ts.into_iter().collect();
        let mut i = 0;
        while i < v.len() {
            match &v[i] {
                TokenTree::Group(g) => {
                    self.scan_tokens(g.stream());
                    i += 1;
                }
                TokenTree::Literal(l) => {
                    let s = l.to_string();
                    if s.ends_with("isize") && s.starts_with(|c: char| c.is_ascii_digit()) {
                        self.emit(line(l.span()), "usize_sens", &s);
                    }
                    i += 1;
                }
                TokenTree::Punct(p) => {
                    let ch = p.as_char();
                    if ch == '#' {
                        if let Some(next) = self.scan_attr_tokens(&v, i) {
                            i = next;
                            continue;
                        }
                    }
                    if ch == '&' && as_ident(v.get(i + 1)).as_deref() == Some("raw") {
                        if matches!(as_ident(v.get(i + 2)).as_deref(), Some("const") | Some("mut")) {
                            self.emit(line(p.span()), "ptr", "&raw");
                        }
                    }
                    i += 1;
                }
                TokenTree::Ident(id) => {
                    i = self.scan_ident_tokens(&v, i, id);
                }
            }
        }
    }

    /// `v[i]` is `#`.  If an attribute follows, report it and return the index after it.
    fn scan_attr_tokens(&mut self, v: &[TokenTree], i: usize) -> Option<usize> {
        let mut j = i + 1;
        let inner = is_punct(v.get(j), '!');
        if inner {
            j += 1;
        }
        match v.get(j) {
            Some(TokenTree::Group(g)) if g.delimiter() == Delimiter::Bracket => {}
            _ => return None,
        }
        let ts: TokenStream = v[i..=j].iter().cloned().collect();
        let parsed = if inner {
            Attribute::parse_inner.parse2(ts)
        } else {
            Attribute::parse_outer.parse2(ts)
        };
        let attrs = parsed.ok()?;
        for a in &attrs {
            if is_std_gate(a) {
                // describe what follows: up to the first `{..}` group or `;`
                let mut rest = Vec::new();
                for tt in &v[j + 1..] {
                    rest.push(tt.clone());
                    let stop = match tt {
                        TokenTree::Group(g) => g.delimiter() == Delimiter::Brace,
                        TokenTree::Punct(p) => p.as_char() == ';',
                        _ => false,
                    };
                    if stop {
                        break;
                    }
                }
                let ln = line(a.pound_token.span);
                self.gates_seen.insert((ln, a.pound_token.span.start().column));
                let desc = render(strip_attrs(rest.into_iter().collect()), 80);
                self.emit(ln, "std_gate", format!("{} :: {}", attr_text(a), desc));
            }
            self.attr_facts(a);
        }
        Some(j + 1)
    }

    /// `v[i]` is the identifier `id`.  Returns the index to continue at.
    fn scan_ident_tokens(&mut self, v: &[TokenTree], i: usize, id: &proc_macro2::Ident) -> usize {
        let name = ident_name(id);
        let ln = line(id.span());
        let prev = if i > 0 { v.get(i - 1) } else { None };
        match name.as_str() {
            "unsafe" => {
                self.emit(ln, "unsafe", "token-in-macro");
                return i + 1;
            }
            "as" => {
                if is_punct(v.get(i + 1), '*') {
                    match as_ident(v.get(i + 2)).as_deref() {
                        Some("const") => self.emit(ln, "ptr", "as *const"),
                        Some("mut") => self.emit(ln, "ptr", "as *mut"),
                        _ => {}
                    }
                } else if let Some(t) = as_ident(v.get(i + 1)) {
                    if INT_TYPES.contains(&t.as_str()) {
                        let src = render(cast_source(&v[..i]), 60);
                        self.emit(ln, "cast", format!("{} as {}", src, t));
                    }
                }
                return i + 1;
            }
            "static" if !is_punct(prev, '\'') => {
                let mut j = i + 1;
                let m = as_ident(v.get(j)).as_deref() == Some("mut");
                if m {
                    j += 1;
                }
                if let (Some(n), true) = (as_ident(v.get(j)), is_punct(v.get(j + 1), ':')) {
                    self.emit(ln, "global", format!("static {}{}", if m { "mut " } else { "" }, n));
                }
                return i + 1;
            }
            "extern" => {
                if as_ident(v.get(i + 1)).as_deref() == Some("crate") {
                    if let Some(n) = as_ident(v.get(i + 2)) {
                        self.emit(ln, "extern_crate", &n);
                    }
                } else {
                    let (abi, j) = match v.get(i + 1) {
                        Some(TokenTree::Literal(l)) => (l.to_string().trim_matches('"').to_string(), i + 2),
                        _ => (String::new(), i + 1),
                    };
                    if matches!(v.get(j), Some(TokenTree::Group(g)) if g.delimiter() == Delimiter::Brace) {
                        self.emit(ln, "extern_block", abi);
                    }
                }
                return i + 1;
            }
            "mod" => {
                if let Some(n) = as_ident(v.get(i + 1)) {
                    if is_punct(v.get(i + 2), ';') {
                        self.emit(ln, "mod", &n);
                    } else if matches!(v.get(i + 2), Some(TokenTree::Group(g)) if g.delimiter() == Delimiter::Brace) {
                        self.emit(ln, "mod", format!("{} inline", n));
                    }
                }
                return i + 1;
            }
            "macro_rules" if is_punct(v.get(i + 1), '!') => {
                if let Some(n) = as_ident(v.get(i + 2)) {
                    self.emit(ln, "macro_def", &n);
                }
                return i + 2;
            }
            "crate" | "super" => {
                // `crate::a::b` / `$crate::a::b` / `super::a::b` inside a macro body
                let mut segs = vec!["crate".to_string()];
                if name == "super" && self.file.contains('/') {
                    return i + 1;
                }
                let mut j = i + 1;
                while is_sep(v, j) {
                    match as_ident(v.get(j + 2)) {
                        Some(s) => {
                            segs.push(s);
                            j += 3;
                        }
                        None => break,
                    }
                }
                if segs.len() >= 2 {
                    self.emit(ln, "crate_path", truncate(&segs.join("::"), 80));
                }
                return j;
            }
            k if KEYWORDS.contains(&k) => return i + 1,
            _ => {}
        }

        // collect `a::b::c`
        let prev_sep = i >= 2 && is_sep(v, i - 2);
        let after_generic = i >= 3
            && is_punct(v.get(i - 3), '>')
            && !(i >= 4 && (is_punct(v.get(i - 4), '-') || is_punct(v.get(i - 4), '=')));
        let leading = prev_sep && !after_generic;
        let mut segs = vec![name.clone()];
        let mut j = i + 1;
        while is_sep(v, j) {
            match as_ident(v.get(j + 2)) {
                Some(s) => {
                    segs.push(s);
                    j += 3;
                }
                None => break,
            }
        }
        let mut turbofish = None;
        if is_sep(v, j) && is_punct(v.get(j + 2), '<') && is_punct(v.get(j + 4), '>') {
            if let Some(t) = as_ident(v.get(j + 3)) {
                if t == "usize" || t == "isize" {
                    turbofish = Some(t);
                }
            }
        }
        // macro invocation `path ! (..)`
        if is_punct(v.get(j), '!') {
            if let Some(TokenTree::Group(g)) = v.get(j + 1) {
                self.macro_facts(&segs, leading, ln, &g.stream());
                if segs.len() > 1 {
                    self.path_facts(&segs, leading, ln, None);
                }
                return j + 1; // the group itself is scanned by the caller's loop
            }
        }
        // `.name` is a method or field; `..name` is the end of a range, not a member access
        if segs.len() == 1 && !leading && is_punct(prev, '.') && !(i >= 2 && is_punct(v.get(i - 2), '.')) {
            self.name_facts(&name, ln, None); // method or field name
        } else {
            self.path_facts(&segs, leading, ln, turbofish.as_deref());
        }
        j
    }

    // ---- use trees

    fn use_leaves(&mut self, t: &UseTree, prefix: &mut Vec<String>, leading: bool) {
        let lead = if leading { "::" } else { "" };
        match t {
            UseTree::Path(p) => {
                prefix.push(ident_name(&p.ident));
                self.use_leaves(&p.tree, prefix, leading);
                prefix.pop();
            }
            UseTree::Name(n) => {
                let mut segs = prefix.clone();
                segs.push(ident_name(&n.ident));
                let ln = line(n.ident.span());
                self.emit(ln, "use", format!("{}{}", lead, segs.join("::")));
                self.path_facts(&segs, leading, ln, None);
            }
            UseTree::Rename(r) => {
                let mut segs = prefix.clone();
                segs.push(ident_name(&r.ident));
                let ln = line(r.ident.span());
                self.emit(ln, "use", format!("{}{} as {}", lead, segs.join("::"), ident_name(&r.rename)));
                self.path_facts(&segs, leading, ln, None);
            }
            UseTree::Glob(g) => {
                let ln = line(g.star_token.span);
                let mut d = format!("{}{}", lead, prefix.join("::"));
                d.push_str(if prefix.is_empty() { "*" } else { "::*" });
                self.emit(ln, "use", d);
                let segs = prefix.clone();
                self.path_facts(&segs, leading, ln, None);
            }
            UseTree::Group(g) => {
                for t in &g.items {
                    self.use_leaves(t, prefix, leading);
                }
            }
        }
    }

    fn fn_facts(&mut self, sig: &syn::Signature) {
        let name = ident_name(&sig.ident);
        self.emit(line(sig.fn_token.span), "item", format!("fn {}", name));
        if let Some(u) = &sig.unsafety {
            self.emit(line(u.span), "unsafe", format!("fn {}", name));
        }
    }
}

fn short(ts: TokenStream) -> String {
    render(strip_attrs(ts), 80)
}

impl<'a, 'ast> Visit<'ast> for Scan<'a> {
    fn visit_file(&mut self, f: &'ast syn::File) {
        if self.file == "lib.rs" {
            for a in &f.attrs {
                if matches!(a.style, AttrStyle::Inner(_)) {
                    self.emit(line(a.pound_token.span), "crate_attr", attr_text(a));
                }
            }
        }
        let what = if self.file == "lib.rs" { "crate" } else { "file" };
        // A file-level `#![cfg_attr(..)]` gates nothing and would end up in the `cfg`
        // field of every fact of the file (even of attributes written before it), so
        // only a real `#![cfg(..)]` is pushed as context; cfg_attr gates on "std" are
        // still reported as std_gate facts.
        let ctx: Vec<Attribute> = f.attrs.iter().filter(|a| a.path().is_ident("cfg")).cloned().collect();
        for a in f.attrs.iter().filter(|a| a.path().is_ident("cfg_attr") && is_std_gate(a)) {
            let ln = line(a.pound_token.span);
            self.gates_seen.insert((ln, a.pound_token.span.start().column));
            self.emit(ln, "std_gate", format!("{} :: {}", attr_text(a), what));
        }
        self.with_attrs(&ctx, &|| what.to_string(), |s| visit::visit_file(s, f));
    }

    fn visit_attribute(&mut self, a: &'ast Attribute) {
        self.attr_facts(a);
        visit::visit_attribute(self, a);
    }

    fn visit_item(&mut self, i: &'ast Item) {
        self.with_attrs(item_attrs(i), &|| short(i.to_token_stream()), |s| {
            match i {
                Item::Fn(x) => s.fn_facts(&x.sig),
                Item::Impl(x) => {
                    let ty = render(x.self_ty.to_token_stream(), 100);
                    let d = match &x.trait_ {
                        Some((bang, p, _)) => format!(
                            "impl {}{} for {}",
                            if bang.is_some() { "!" } else { "" },
                            render(p.to_token_stream(), 100),
                            ty
                        ),
                        None => format!("impl {}", ty),
                    };
                    s.emit(line(x.impl_token.span), "item", d);
                    if let Some(u) = &x.unsafety {
                        s.emit(line(u.span), "unsafe", "impl");
                    }
                }
                Item::Struct(x) => s.emit(line(x.struct_token.span), "item", format!("struct {}", ident_name(&x.ident))),
                Item::Enum(x) => s.emit(line(x.enum_token.span), "item", format!("enum {}", ident_name(&x.ident))),
                Item::Union(x) => s.emit(line(x.union_token.span), "item", format!("union {}", ident_name(&x.ident))),
                Item::Trait(x) => {
                    s.emit(line(x.trait_token.span), "item", format!("trait {}", ident_name(&x.ident)));
                    if let Some(u) = &x.unsafety {
                        s.emit(line(u.span), "unsafe", "trait");
                    }
                }
                Item::TraitAlias(x) => s.emit(line(x.trait_token.span), "item", format!("trait {}", ident_name(&x.ident))),
                Item::Type(x) => s.emit(line(x.type_token.span), "item", format!("type {}", ident_name(&x.ident))),
                Item::Const(x) => s.emit(line(x.const_token.span), "item", format!("const {}", ident_name(&x.ident))),
                Item::Static(x) => {
                    let m = matches!(x.mutability, syn::StaticMutability::Mut(_));
                    s.emit(
                        line(x.static_token.span),
                        "global",
                        format!("static {}{}", if m { "mut " } else { "" }, ident_name(&x.ident)),
                    );
                }
                Item::Mod(x) => {
                    let mut d = ident_name(&x.ident);
                    for a in &x.attrs {
                        if a.path().is_ident("path") {
                            if let Meta::NameValue(nv) = &a.meta {
                                let v = match &nv.value {
                                    Expr::Lit(syn::ExprLit { lit: syn::Lit::Str(l), .. }) => l.value(),
                                    other => render(other.to_token_stream(), 80),
                                };
                                let _ = write!(d, " path={}", v);
                            }
                        }
                    }
                    if x.content.is_some() {
                        d.push_str(" inline");
                    }
                    s.emit(line(x.mod_token.span), "mod", d);
                    if let Some(u) = &x.unsafety {
                        s.emit(line(u.span), "unsafe", format!("mod {}", ident_name(&x.ident)));
                    }
                }
                Item::ForeignMod(x) => {
                    let abi = x.abi.name.as_ref().map(|n| n.value()).unwrap_or_default();
                    s.emit(line(x.abi.extern_token.span), "extern_block", abi);
                    if let Some(u) = &x.unsafety {
                        s.emit(line(u.span), "unsafe", "extern");
                    }
                }
                Item::ExternCrate(x) => {
                    let n = ident_name(&x.ident);
                    let ln = line(x.extern_token.span);
                    s.emit(ln, "extern_crate", &n);
                    s.path_facts(&[n], false, line(x.ident.span()), None);
                }
                Item::Use(x) => {
                    let mut prefix = Vec::new();
                    s.use_leaves(&x.tree, &mut prefix, x.leading_colon.is_some());
                }
                Item::Macro(x) => {
                    if x.mac.path.is_ident("macro_rules") {
                        if let Some(id) = &x.ident {
                            s.emit(line(id.span()), "macro_def", ident_name(id));
                        }
                    }
                }
                Item::Verbatim(ts) => s.scan_tokens(ts.clone()),
                _ => {}
            }
            visit::visit_item(s, i);
        });
    }

    fn visit_impl_item(&mut self, i: &'ast syn::ImplItem) {
        use syn::ImplItem::*;
        let attrs: &[Attribute] = match i {
            Const(x) => &x.attrs,
            Fn(x) => &x.attrs,
            Type(x) => &x.attrs,
            Macro(x) => &x.attrs,
            _ => &[],
        };
        self.with_attrs(attrs, &|| short(i.to_token_stream()), |s| {
            match i {
                Fn(x) => s.fn_facts(&x.sig),
                Const(x) => s.emit(line(x.const_token.span), "item", format!("const {}", ident_name(&x.ident))),
                Type(x) => s.emit(line(x.type_token.span), "item", format!("type {}", ident_name(&x.ident))),
                Verbatim(ts) => s.scan_tokens(ts.clone()),
                _ => {}
            }
            visit::visit_impl_item(s, i);
        });
    }

    fn visit_trait_item(&mut self, i: &'ast syn::TraitItem) {
        use syn::TraitItem::*;
        let attrs: &[Attribute] = match i {
            Const(x) => &x.attrs,
            Fn(x) => &x.attrs,
            Type(x) => &x.attrs,
            Macro(x) => &x.attrs,
            _ => &[],
        };
        self.with_attrs(attrs, &|| short(i.to_token_stream()), |s| {
            match i {
                Fn(x) => s.fn_facts(&x.sig),
                Const(x) => s.emit(line(x.const_token.span), "item", format!("const {}", ident_name(&x.ident))),
                Type(x) => s.emit(line(x.type_token.span), "item", format!("type {}", ident_name(&x.ident))),
                Verbatim(ts) => s.scan_tokens(ts.clone()),
                _ => {}
            }
            visit::visit_trait_item(s, i);
        });
    }

    fn visit_foreign_item(&mut self, i: &'ast syn::ForeignItem) {
        use syn::ForeignItem::*;
        let attrs: &[Attribute] = match i {
            Fn(x) => &x.attrs,
            Static(x) => &x.attrs,
            Type(x) => &x.attrs,
            Macro(x) => &x.attrs,
            _ => &[],
        };
        self.with_attrs(attrs, &|| short(i.to_token_stream()), |s| {
            match i {
                Fn(x) => s.fn_facts(&x.sig),
                Static(x) => {
                    let m = matches!(x.mutability, syn::StaticMutability::Mut(_));
                    s.emit(
                        line(x.static_token.span),
                        "global",
                        format!("static {}{}", if m { "mut " } else { "" }, ident_name(&x.ident)),
                    );
                }
                Type(x) => s.emit(line(x.type_token.span), "item", format!("type {}", ident_name(&x.ident))),
                Verbatim(ts) => s.scan_tokens(ts.clone()),
                _ => {}
            }
            visit::visit_foreign_item(s, i);
        });
    }

    fn visit_field(&mut self, i: &'ast syn::Field) {
        self.with_attrs(&i.attrs, &|| short(i.to_token_stream()), |s| visit::visit_field(s, i));
    }

    fn visit_variant(&mut self, i: &'ast syn::Variant) {
        self.with_attrs(&i.attrs, &|| short(i.to_token_stream()), |s| visit::visit_variant(s, i));
    }

    fn visit_local(&mut self, i: &'ast syn::Local) {
        self.with_attrs(&i.attrs, &|| short(i.to_token_stream()), |s| visit::visit_local(s, i));
    }

    fn visit_stmt_macro(&mut self, i: &'ast syn::StmtMacro) {
        self.with_attrs(&i.attrs, &|| short(i.to_token_stream()), |s| visit::visit_stmt_macro(s, i));
    }

    fn visit_arm(&mut self, i: &'ast syn::Arm) {
        self.with_attrs(&i.attrs, &|| short(i.to_token_stream()), |s| visit::visit_arm(s, i));
    }

    fn visit_field_value(&mut self, i: &'ast syn::FieldValue) {
        self.with_attrs(&i.attrs, &|| short(i.to_token_stream()), |s| visit::visit_field_value(s, i));
    }

    fn visit_fn_arg(&mut self, i: &'ast syn::FnArg) {
        let attrs: &[Attribute] = match i {
            syn::FnArg::Receiver(r) => &r.attrs,
            syn::FnArg::Typed(t) => &t.attrs,
        };
        self.with_attrs(attrs, &|| short(i.to_token_stream()), |s| visit::visit_fn_arg(s, i));
    }

    fn visit_expr(&mut self, e: &'ast Expr) {
        let desc = || {
            if matches!(e, Expr::Block(_)) {
                "block".to_string()
            } else {
                short(e.to_token_stream())
            }
        };
        self.with_attrs(expr_attrs(e), &desc, |s| {
            match e {
                Expr::Unsafe(x) => s.emit(line(x.unsafe_token.span), "unsafe", "block"),
                Expr::Cast(x) => {
                    let ln = line(x.as_token.span);
                    match peel_type(&x.ty) {
                        Type::Ptr(p) => {
                            s.emit(ln, "ptr", if p.mutability.is_some() { "as *mut" } else { "as *const" });
                        }
                        Type::Path(tp) if tp.qself.is_none() => {
                            if let Some(id) = tp.path.get_ident() {
                                let t = ident_name(id);
                                if INT_TYPES.contains(&t.as_str()) {
                                    let src = render(x.expr.to_token_stream(), 60);
                                    s.emit(ln, "cast", format!("{} as {}", src, t));
                                }
                            }
                        }
                        _ => {}
                    }
                }
                Expr::MethodCall(x) => {
                    let n = ident_name(&x.method);
                    s.name_facts(&n, line(x.method.span()), None);
                }
                Expr::RawAddr(x) => s.emit(line(x.and_token.span), "ptr", "&raw"),
                Expr::Verbatim(ts) => s.scan_tokens(ts.clone()),
                _ => {}
            }
            visit::visit_expr(s, e);
        });
    }

    fn visit_type_bare_fn(&mut self, t: &'ast syn::TypeBareFn) {
        if let Some(u) = &t.unsafety {
            self.emit(line(u.span), "unsafe", "fn <fn-pointer type>");
        }
        visit::visit_type_bare_fn(self, t);
    }

    fn visit_type(&mut self, t: &'ast Type) {
        if let Type::Verbatim(ts) = t {
            self.scan_tokens(ts.clone());
        }
        visit::visit_type(self, t);
    }

    fn visit_pat(&mut self, p: &'ast syn::Pat) {
        if let syn::Pat::Verbatim(ts) = p {
            self.scan_tokens(ts.clone());
        }
        visit::visit_pat(self, p);
    }

    fn visit_lit_int(&mut self, l: &'ast syn::LitInt) {
        if l.suffix() == "isize" {
            self.emit(line(l.span()), "usize_sens", l.to_string());
        }
    }

    fn visit_path(&mut self, p: &'ast syn::Path) {
        let segs: Vec<String> = p.segments.iter().map(|s| ident_name(&s.ident)).collect();
        let ln = p.segments.first().map(|s| line(s.ident.span())).unwrap_or(0);
        let mut turbofish = None;
        if let Some(last) = p.segments.last() {
            if let syn::PathArguments::AngleBracketed(ab) = &last.arguments {
                for a in &ab.args {
                    if let syn::GenericArgument::Type(Type::Path(tp)) = a {
                        if tp.path.is_ident("usize") {
                            turbofish = Some("usize");
                        } else if tp.path.is_ident("isize") {
                            turbofish = Some("isize");
                        }
                    }
                }
            }
        }
        self.path_facts(&segs, p.leading_colon.is_some(), ln, turbofish);
        visit::visit_path(self, p);
    }

    fn visit_macro(&mut self, m: &'ast syn::Macro) {
        let segs: Vec<String> = m.path.segments.iter().map(|s| ident_name(&s.ident)).collect();
        let ln = m.path.segments.first().map(|s| line(s.ident.span())).unwrap_or(0);
        if !m.path.is_ident("macro_rules") {
            self.macro_facts(&segs, m.path.leading_colon.is_some(), ln, &m.tokens);
        }
        if segs.len() > 1 {
            // `std::println!` etc.; single-segment macro names are not paths of interest
            self.path_facts(&segs, m.path.leading_colon.is_some(), ln, None);
        }
        self.scan_tokens(m.tokens.clone());
        // deliberately not calling visit::visit_macro: the path was handled above
    }
}

// --------------------------------------------------------------------- output

fn lean_str(s: &str) -> String {
    let mut o = String::with_capacity(s.len() + 2);
    o.push('"');
    for c in s.chars() {
        match c {
            '\\' => o.push_str("\\\\"),
            '"' => o.push_str("\\\""),
            '\n' => o.push_str("\\n"),
            '\t' => o.push_str("\\t"),
            '\r' => o.push_str("\\r"),
            c if (c as u32) < 0x20 || c as u32 == 0x7f => {
                let _ = write!(o, "\\x{:02x}", c as u32);
            }
            c => o.push(c),
        }
    }
    o.push('"');
    o
}

fn json_str(s: &str) -> String {
    let mut o = String::with_capacity(s.len() + 2);
    o.push('"');
    for c in s.chars() {
        match c {
            '\\' => o.push_str("\\\\"),
            '"' => o.push_str("\\\""),
            '\n' => o.push_str("\\n"),
            '\t' => o.push_str("\\t"),
            '\r' => o.push_str("\\r"),
            c if (c as u32) < 0x20 => {
                let _ = write!(o, "\\u{:04x}", c as u32);
            }
            c => o.push(c),
        }
    }
    o.push('"');
    o
}

const CHUNK: usize = 200;

fn write_lean(src: &str, files: &[String], facts: &[Fact]) -> String {
    let mut o = String::new();
    let _ = writeln!(o, "-- GENERATED by /verif/harness/facts from {}; do not edit.", src);
    o.push_str("namespace HH.Facts\n\n");
    o.push_str("structure Fact where\n");
    o.push_str("  file : String     -- path relative to src dir, '/' separated\n");
    o.push_str("  line : Nat        -- 1-based source line\n");
    o.push_str("  kind : String     -- category\n");
    o.push_str("  detail : String   -- identifier / token text\n");
    o.push_str("  test : Bool       -- inside an item carrying #[cfg(test)] or #[test]\n");
    o.push_str("  cfg : String      -- enclosing cfg / cfg_attr attributes joined by \" && \"\n");
    o.push_str("deriving DecidableEq, Repr\n\n");
    let fl: Vec<String> = files.iter().map(|f| lean_str(f)).collect();
    let _ = writeln!(o, "def files : List String := [{}]\n", fl.join(", "));
    let chunks: Vec<&[Fact]> = facts.chunks(CHUNK).collect();
    for (n, c) in chunks.iter().enumerate() {
        let _ = writeln!(o, "def facts{} : List Fact := [", n);
        for (k, f) in c.iter().enumerate() {
            let _ = writeln!(
                o,
                "  ⟨{}, {}, {}, {}, {}, {}⟩{}",
                lean_str(&f.file),
                f.line,
                lean_str(&f.kind),
                lean_str(&f.detail),
                f.test,
                lean_str(&f.cfg),
                if k + 1 < c.len() { "," } else { "" }
            );
        }
        o.push_str("]\n\n");
    }
    if chunks.is_empty() {
        o.push_str("def facts : List Fact := []\n\n");
    } else {
        let names: Vec<String> = (0..chunks.len()).map(|n| format!("facts{}", n)).collect();
        let _ = writeln!(o, "def facts : List Fact := {}\n", names.join(" ++ "));
    }
    o.push_str("end HH.Facts\n");
    o
}

fn write_json(files: &[String], facts: &[Fact]) -> String {
    let mut o = String::new();
    let fl: Vec<String> = files.iter().map(|f| json_str(f)).collect();
    let _ = writeln!(o, "{{\"files\":[{}],", fl.join(","));
    o.push_str("\"facts\":[\n");
    for (k, f) in facts.iter().enumerate() {
        let _ = writeln!(
            o,
            "{{\"file\":{},\"line\":{},\"kind\":{},\"detail\":{},\"test\":{},\"cfg\":{}}}{}",
            json_str(&f.file),
            f.line,
            json_str(&f.kind),
            json_str(&f.detail),
            f.test,
            json_str(&f.cfg),
            if k + 1 < facts.len() { "," } else { "" }
        );
    }
    o.push_str("]}\n");
    o
}

// ----------------------------------------------------------------------- main

fn collect_rs(dir: &Path, out: &mut Vec<PathBuf>) -> std::io::Result<()> {
    for e in std::fs::read_dir(dir)? {
        let p = e?.path();
        if p.is_dir() {
            collect_rs(&p, out)?;
        } else if p.extension().map_or(false, |x| x == "rs") {
            out.push(p);
        }
    }
    Ok(())
}

fn scan_file(rel: &str, text: &str) -> Result<Vec<Fact>, String> {
    let ts: TokenStream = text.parse().map_err(|e: proc_macro2::LexError| {
        format!("lex error at line {}: {}", e.span().start().line, e)
    })?;
    let file: syn::File = syn::parse2(ts.clone())
        .map_err(|e| format!("parse error at line {}: {}", e.span().start().line, e))?;
    let mut s = Scan { file: rel, facts: Vec::new(), cfg: Vec::new(), test: 0, gates_seen: HashSet::new() };
    s.visit_file(&file);

    // Safety net: every raw `unsafe` token must be accounted for by a fact on its line.
    let mut raw = BTreeMap::new();
    raw_unsafe_lines(ts, &mut raw);
    let mut have: BTreeMap<usize, usize> = BTreeMap::new();
    for f in s.facts.iter().filter(|f| f.kind == "unsafe") {
        *have.entry(f.line).or_default() += 1;
    }
    for (ln, n) in raw {
        let h = have.get(&ln).copied().unwrap_or(0);
        for _ in h..n {
            s.emit(ln, "unsafe", "token");
        }
    }
    Ok(s.facts)
}

fn main() {
    let args: Vec<String> = std::env::args().collect();
    if args.len() < 3 || args.len() > 4 {
        eprintln!("usage: facts <src-dir> <out.lean> [<out.json>]");
        std::process::exit(1);
    }
    let src = Path::new(&args[1]);
    let mut paths = Vec::new();
    if let Err(e) = collect_rs(src, &mut paths) {
        eprintln!("facts: cannot read {}: {}", src.display(), e);
        std::process::exit(1);
    }
    let mut rels: Vec<(String, PathBuf)> = paths
        .into_iter()
        .map(|p| {
            let rel = p.strip_prefix(src).unwrap_or(&p);
            let r: Vec<String> = rel.components().map(|c| c.as_os_str().to_string_lossy().into_owned()).collect();
            (r.join("/"), p)
        })
        .collect();
    rels.sort();

    let mut facts = Vec::new();
    let mut files = Vec::new();
    let mut failed = false;
    for (rel, p) in &rels {
        let text = match std::fs::read_to_string(p) {
            Ok(t) => t,
            Err(e) => {
                eprintln!("facts: {}: {}", p.display(), e);
                failed = true;
                continue;
            }
        };
        match scan_file(rel, &text) {
            Ok(f) => {
                facts.extend(f);
                files.push(rel.clone());
            }
            Err(e) => {
                eprintln!("facts: {}: {}", p.display(), e);
                failed = true;
            }
        }
    }
    if failed {
        std::process::exit(2);
    }
    facts.sort();

    if let Err(e) = std::fs::write(&args[2], write_lean(&args[1], &files, &facts)) {
        eprintln!("facts: cannot write {}: {}", args[2], e);
        std::process::exit(1);
    }
    if let Some(j) = args.get(3) {
        if let Err(e) = std::fs::write(j, write_json(&files, &facts)) {
            eprintln!("facts: cannot write {}: {}", j, e);
            std::process::exit(1);
        }
    }
    eprintln!("facts: {} files, {} facts", files.len(), facts.len());
}
