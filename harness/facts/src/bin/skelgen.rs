//! skelgen: translate the CONTROL SKELETON of `append` and of the `finalize64/128/256` prologues of every back end
//! (src/portable.rs, src/x86/sse.rs, src/x86/avx.rs, src/aarch64.rs, src/wasm.rs) into Lean, with data of
//! symbolic length.  Calls are mapped to the model of the callee:
//!   self.buffer.is_empty()/fill(d)/set_to(d)/inner()      -> Pkt.isEmpty / Pkt.fill / Pkt.setTo / Pkt.inner
//!   let mut c = X.chunks_exact(PACKET_SIZE); for chunk in c.by_ref() { self.update(Self::data_to_lanes(chunk)) }; c.remainder()
//!                                                         -> HH.absorb upd X.length s X   (state, remainder)
//!   self.update(Self::data_to_lanes(E))                   -> upd s E
//!   self.update_remainder() / for _ in 0..K { self.permute_and_update() }
//!                                                         -> M.updateRemainder x / M.rounds K s
//! Output: HH/Generated/Skeleton.lean with, per back end, `append_<tag>` + theorem `append_<tag>_eq : … = HH.appendG upd x data`
//! and `finalizeN_pro_<tag>` + theorem `… = M.finalizeCommon K x` (K = the model's round count), all by `rfl`.
//! A function whose source no longer fits the patterns is skipped (status JSON): advisory, never an alarm.
//!
//! usage: skelgen <repo>/src <out.lean> <status.json>
use std::fmt::Write as _;
use syn::{Expr, ImplItem, Item, Pat, Stmt};

type R<T> = Result<T, String>;

fn find_fn(path: &str, ty: &str, name: &str) -> R<syn::ImplItemFn> {
    let src = std::fs::read_to_string(path).map_err(|e| format!("{path}: {e}"))?;
    let file = syn::parse_file(&src).map_err(|e| format!("{path}: {e}"))?;
    for it in &file.items {
        if let Item::Impl(im) = it {
            let t = &im.self_ty;
            if im.trait_.is_none() && quote::quote!(#t).to_string() == ty {
                for ii in &im.items {
                    if let ImplItem::Fn(f) = ii {
                        if f.sig.ident == name {
                            return Ok(f.clone());
                        }
                    }
                }
            }
        }
    }
    Err("missing".into())
}

fn find_trait_fn(path: &str, ty: &str, tr: &str, name: &str) -> R<syn::ImplItemFn> {
    let src = std::fs::read_to_string(path).map_err(|e| format!("{path}: {e}"))?;
    let file = syn::parse_file(&src).map_err(|e| format!("{path}: {e}"))?;
    for it in &file.items {
        if let Item::Impl(im) = it {
            let t = &im.self_ty;
            let is_tr = im.trait_.as_ref().map(|x| x.1.segments.last().map(|s| s.ident == tr).unwrap_or(false)).unwrap_or(false);
            if is_tr && quote::quote!(#t).to_string() == ty {
                for ii in &im.items {
                    if let ImplItem::Fn(f) = ii {
                        if f.sig.ident == name {
                            return Ok(f.clone());
                        }
                    }
                }
            }
        }
    }
    Err("missing".into())
}

/// `Key` derives `Default` (all-zero words) - checked on the struct definition
fn key_derives_default(src_dir: &str) -> bool {
    let Ok(src) = std::fs::read_to_string(format!("{src_dir}/key.rs")) else { return false };
    let Ok(file) = syn::parse_file(&src) else { return false };
    for it in &file.items {
        if let Item::Struct(st) = it {
            if st.ident == "Key" {
                let derives: String = st.attrs.iter().filter(|a| a.path().is_ident("derive")).map(|a| { let m = &a.meta; quote::quote!(#m).to_string() }).collect();
                let one_field = matches!(&st.fields, syn::Fields::Unnamed(u) if u.unnamed.len() == 1 && { let t = &u.unnamed[0].ty; quote::quote!(#t).to_string().replace(' ', "") == "[u64;4]" });
                return derives.contains("Default") && one_field;
            }
        }
    }
    false
}

/// `impl Default`: the body must be `<Self|Type>::<ctor>(Key::default())`, possibly inside `unsafe { }`
fn default_ctor(f: &syn::ImplItemFn, ty: &str) -> R<String> {
    let mut e: &Expr = match f.block.stmts.as_slice() {
        [Stmt::Expr(e, None)] => e,
        _ => return Err("body is not a single expression".into()),
    };
    if let Expr::Unsafe(u) = e {
        e = match u.block.stmts.as_slice() {
            [Stmt::Expr(e, None)] => e,
            _ => return Err("unsafe block is not a single expression".into()),
        };
    }
    let Expr::Call(c) = e else { return Err("not a constructor call".into()) };
    let Expr::Path(p) = &*c.func else { return Err("constructor path".into()) };
    let segs: Vec<String> = p.path.segments.iter().map(|s| s.ident.to_string()).collect();
    if segs.len() != 2 || !(segs[0] == "Self" || segs[0] == ty) {
        return Err("constructor of another type".into());
    }
    let [arg] = c.args.iter().collect::<Vec<_>>()[..] else { return Err("constructor arity".into()) };
    let a = quote::quote!(#arg).to_string().replace(' ', "");
    if a != "Key::default()" {
        return Err(format!("key argument is {a}"));
    }
    Ok(segs[1].clone())
}

fn packet_size(src_dir: &str) -> Option<u64> {
    let src = std::fs::read_to_string(format!("{src_dir}/internal.rs")).ok()?;
    let file = syn::parse_file(&src).ok()?;
    for it in &file.items {
        if let Item::Const(c) = it {
            if c.ident == "PACKET_SIZE" {
                if let Expr::Lit(l) = &*c.expr {
                    if let syn::Lit::Int(i) = &l.lit {
                        return i.base10_parse().ok();
                    }
                }
            }
        }
    }
    None
}

fn is_self_buffer(e: &Expr) -> bool {
    if let Expr::Field(f) = e {
        if let (Expr::Path(p), syn::Member::Named(id)) = (&*f.base, &f.member) {
            return p.path.is_ident("self") && id == "buffer";
        }
    }
    false
}

struct Tr {
    lines: Vec<String>,
    fresh: usize,
    chunk_size: u64,
    // `let mut chunks = X.chunks_exact(..)`: name -> (source term, remainder term once consumed)
    chunks: Vec<(String, String, Option<String>)>,
}

impl Tr {
    fn name(&mut self, p: &str) -> String {
        self.fresh += 1;
        format!("{p}{}", self.fresh)
    }
    /// a byte-slice expression: an identifier bound by the skeleton (`data`, `tail`, `chunk`), `self.buffer.inner()`,
    /// or `chunks.remainder()`
    fn slice(&mut self, e: &Expr, b: &str) -> R<String> {
        match e {
            Expr::Path(p) => p.path.get_ident().map(|i| i.to_string()).ok_or_else(|| "slice path".into()),
            Expr::Reference(r) => self.slice(&r.expr, b),
            Expr::Paren(p) => self.slice(&p.expr, b),
            Expr::MethodCall(m) if m.method == "inner" && m.args.is_empty() && is_self_buffer(&m.receiver) => Ok(format!("(Pkt.inner {b})")),
            Expr::MethodCall(m) if m.method == "remainder" && m.args.is_empty() => {
                let Expr::Path(p) = &*m.receiver else { return Err("remainder receiver".into()) };
                let id = p.path.get_ident().ok_or("remainder receiver")?.to_string();
                let ent = self.chunks.iter().rev().find(|c| c.0 == id).ok_or("remainder of an unknown iterator")?;
                ent.2.clone().ok_or_else(|| "remainder() before the chunk loop".to_string())
            }
            _ => Err(format!("slice expression: {}", quote::quote!(#e).to_string().chars().take(50).collect::<String>())),
        }
    }
    /// `self.update(Self::data_to_lanes(E))` -> E
    fn update_arg<'e>(&self, e: &'e Expr) -> Option<&'e Expr> {
        let Expr::MethodCall(m) = e else { return None };
        if m.method != "update" || m.args.len() != 1 || !matches!(&*m.receiver, Expr::Path(p) if p.path.is_ident("self")) {
            return None;
        }
        let Expr::Call(c) = &m.args[0] else { return None };
        let Expr::Path(p) = &*c.func else { return None };
        if p.path.segments.last().map(|s| s.ident == "data_to_lanes").unwrap_or(false) && c.args.len() == 1 {
            return Some(&c.args[0]);
        }
        None
    }
    /// translate a block in state-passing style; returns the Lean term (of type S × Pkt) for the block's outcome
    fn block(&mut self, stmts: &[Stmt], mut s: String, mut b: String, ind: usize) -> R<String> {
        let pad = " ".repeat(ind);
        let mut out = String::new();
        for (i, st) in stmts.iter().enumerate() {
            let last = i + 1 == stmts.len();
            match st {
                Stmt::Local(l) => {
                    // let mut chunks = X.chunks_exact(PACKET_SIZE);
                    let Pat::Ident(pi) = &l.pat else { return Err("let pattern".into()) };
                    let init = l.init.as_ref().ok_or("let without init")?;
                    let Expr::MethodCall(m) = &*init.expr else { return Err("let initialiser".into()) };
                    if m.method != "chunks_exact" || m.args.len() != 1 {
                        return Err("let initialiser".into());
                    }
                    let ok = match &m.args[0] {
                        Expr::Path(p) => p.path.is_ident("PACKET_SIZE") && self.chunk_size == 32,
                        Expr::Lit(l) => matches!(&l.lit, syn::Lit::Int(i) if i.base10_parse::<u64>().ok() == Some(32)),
                        _ => false,
                    };
                    if !ok {
                        return Err("chunk size is not the 32-byte packet".into());
                    }
                    let src = self.slice(&m.receiver, &b)?;
                    self.chunks.push((pi.ident.to_string(), src, None));
                }
                Stmt::Expr(Expr::ForLoop(f), _) => {
                    // for chunk in chunks.by_ref() { self.update(Self::data_to_lanes(chunk)); }
                    let Pat::Ident(var) = &*f.pat else { return Err("loop pattern".into()) };
                    let Expr::MethodCall(m) = &*f.expr else { return Err("loop iterator".into()) };
                    if m.method != "by_ref" {
                        return Err("loop iterator".into());
                    }
                    let Expr::Path(p) = &*m.receiver else { return Err("loop iterator".into()) };
                    let id = p.path.get_ident().ok_or("loop iterator")?.to_string();
                    if f.body.stmts.len() != 1 {
                        return Err("loop body".into());
                    }
                    let body = match &f.body.stmts[0] {
                        Stmt::Expr(e, _) => e,
                        _ => return Err("loop body".into()),
                    };
                    let arg = self.update_arg(body).ok_or("loop body is not `self.update(Self::data_to_lanes(chunk))`")?;
                    if !matches!(arg, Expr::Path(p) if p.path.is_ident(&var.ident)) {
                        return Err("loop body does not consume the chunk".into());
                    }
                    let idx = self.chunks.iter().rposition(|c| c.0 == id).ok_or("loop over an unknown iterator")?;
                    if self.chunks[idx].2.is_some() {
                        return Err("iterator consumed twice".into());
                    }
                    let src = self.chunks[idx].1.clone();
                    let r = self.name("r");
                    let _ = writeln!(out, "{pad}let {r} := HH.absorb upd ({src}).length {s} {src}");
                    s = format!("{r}.1");
                    self.chunks[idx].2 = Some(format!("{r}.2"));
                }
                Stmt::Expr(Expr::If(ife), _) if last => {
                    let t = self.if_expr(ife, &s, &b, ind)?;
                    out.push_str(&t);
                    return Ok(out);
                }
                Stmt::Expr(e, _) => {
                    if let Some(arg) = self.update_arg(e) {
                        let a = self.slice(arg, &b)?;
                        let n = self.name("s");
                        let _ = writeln!(out, "{pad}let {n} := upd {s} {a}");
                        s = n;
                    } else if let Expr::MethodCall(m) = e {
                        if m.method == "set_to" && m.args.len() == 1 && is_self_buffer(&m.receiver) {
                            let a = self.slice(&m.args[0], &b)?;
                            b = format!("(Pkt.setTo {b} {a})");
                        } else {
                            return Err(format!("statement: {}", quote::quote!(#e).to_string().chars().take(50).collect::<String>()));
                        }
                    } else {
                        return Err(format!("statement: {}", quote::quote!(#e).to_string().chars().take(50).collect::<String>()));
                    }
                }
                _ => return Err("statement kind".into()),
            }
        }
        let _ = writeln!(out, "{pad}({s}, {b})");
        Ok(out)
    }
    fn if_expr(&mut self, ife: &syn::ExprIf, s: &str, b: &str, ind: usize) -> R<String> {
        let pad = " ".repeat(ind);
        let mut out = String::new();
        match &*ife.cond {
            // if let Some(tail) = self.buffer.fill(data) { .. }
            Expr::Let(l) => {
                let Pat::TupleStruct(ts) = &*l.pat else { return Err("if-let pattern".into()) };
                if !ts.path.is_ident("Some") || ts.elems.len() != 1 {
                    return Err("if-let pattern".into());
                }
                let Pat::Ident(tail) = &ts.elems[0] else { return Err("if-let binding".into()) };
                let Expr::MethodCall(m) = &*l.expr else { return Err("if-let scrutinee".into()) };
                if m.method != "fill" || m.args.len() != 1 || !is_self_buffer(&m.receiver) {
                    return Err("if-let scrutinee".into());
                }
                let arg = self.slice(&m.args[0], b)?;
                let b2 = self.name("b");
                let _ = writeln!(out, "{pad}match Pkt.fill {b} {arg} with");
                let els = match &ife.else_branch {
                    None => format!("{pad}    ({s}, {b2})\n"),
                    Some((_, e)) => match &**e {
                        Expr::Block(bl) => self.block(&bl.block.stmts, s.to_string(), b2.clone(), ind + 4)?,
                        Expr::If(i2) => self.if_expr(i2, s, &b2, ind + 4)?,
                        _ => return Err("else branch".into()),
                    },
                };
                let _ = writeln!(out, "{pad}| ({b2}, none) =>");
                out.push_str(&els);
                let _ = writeln!(out, "{pad}| ({b2}, some {}) =>", tail.ident);
                let then = self.block(&ife.then_branch.stmts, s.to_string(), b2.clone(), ind + 4)?;
                out.push_str(&then);
            }
            c => {
                let cond = cond_text(c, b)?;
                let _ = writeln!(out, "{pad}if {cond} then");
                let then = self.block(&ife.then_branch.stmts, s.to_string(), b.to_string(), ind + 2)?;
                out.push_str(&then);
                let _ = writeln!(out, "{pad}else");
                let els = match &ife.else_branch {
                    None => format!("{pad}  ({s}, {b})\n"),
                    Some((_, e)) => match &**e {
                        Expr::Block(bl) => self.block(&bl.block.stmts, s.to_string(), b.to_string(), ind + 2)?,
                        Expr::If(i2) => self.if_expr(i2, s, b, ind + 2)?,
                        _ => return Err("else branch".into()),
                    },
                };
                out.push_str(&els);
            }
        }
        Ok(out)
    }
}

/// `self.buffer.is_empty()` / `!self.buffer.is_empty()`
fn cond_text(c: &Expr, b: &str) -> R<String> {
    match c {
        Expr::Paren(p) => cond_text(&p.expr, b),
        Expr::Unary(u) if matches!(u.op, syn::UnOp::Not(_)) => Ok(format!("!({})", cond_text(&u.expr, b)?)),
        Expr::MethodCall(m) if m.method == "is_empty" && m.args.is_empty() && is_self_buffer(&m.receiver) => Ok(format!("Pkt.isEmpty {b}")),
        _ => Err(format!("condition: {}", quote::quote!(#c).to_string().chars().take(50).collect::<String>())),
    }
}

/// the prologue of finalizeN: `if !self.buffer.is_empty() { self.update_remainder(); }  for _i in 0..K { self.permute_and_update(); }`
fn prologue(f: &syn::ImplItemFn, model: &str, st: &str) -> R<String> {
    let mut it = f.block.stmts.iter();
    let Some(Stmt::Expr(Expr::If(ife), _)) = it.next() else { return Err("first statement is not the remainder test".into()) };
    if ife.else_branch.is_some() || ife.then_branch.stmts.len() != 1 {
        return Err("remainder test shape".into());
    }
    let cond = cond_text(&ife.cond, "x.buffer")?;
    match &ife.then_branch.stmts[0] {
        Stmt::Expr(Expr::MethodCall(m), _) if m.method == "update_remainder" && m.args.is_empty() && matches!(&*m.receiver, Expr::Path(p) if p.path.is_ident("self")) => {}
        _ => return Err("remainder branch is not `self.update_remainder()`".into()),
    }
    let Some(Stmt::Expr(Expr::ForLoop(fl), _)) = it.next() else { return Err("second statement is not the round loop".into()) };
    let Expr::Range(r) = &*fl.expr else { return Err("round loop range".into()) };
    let lit = |e: &Option<Box<Expr>>| -> Option<u64> {
        match e.as_deref() {
            Some(Expr::Lit(l)) => match &l.lit {
                syn::Lit::Int(i) => i.base10_parse().ok(),
                _ => None,
            },
            _ => None,
        }
    };
    if !matches!(r.limits, syn::RangeLimits::HalfOpen(_)) || lit(&r.start) != Some(0) {
        return Err("round loop range".into());
    }
    let k = lit(&r.end).ok_or("round count is not a literal")?;
    let is_self = |e: &Expr| matches!(e, Expr::Path(p) if p.path.is_ident("self"));
    match fl.body.stmts.as_slice() {
        [Stmt::Expr(Expr::MethodCall(m), _)] if m.method == "permute_and_update" && m.args.is_empty() && is_self(&m.receiver) => {}
        // AvxHash has no `permute_and_update`: `let permuted = AvxHash::permute(&self.v0); self.update(permuted);`
        // is the body of the model's `permuteAndUpdate` (= `update s (permute s.v0)`)
        [Stmt::Local(l), Stmt::Expr(Expr::MethodCall(m), _)] if m.method == "update" && m.args.len() == 1 && is_self(&m.receiver) => {
            let Pat::Ident(pi) = &l.pat else { return Err("round loop body".into()) };
            if !matches!(&m.args[0], Expr::Path(p) if p.path.is_ident(&pi.ident)) {
                return Err("round loop body".into());
            }
            let init = l.init.as_ref().ok_or("round loop body")?;
            let Expr::Call(c) = &*init.expr else { return Err("round loop body".into()) };
            let Expr::Path(fp) = &*c.func else { return Err("round loop body".into()) };
            let v0 = match c.args.first() {
                Some(Expr::Reference(r)) => matches!(&*r.expr, Expr::Field(f) if is_self(&f.base) && matches!(&f.member, syn::Member::Named(n) if n == "v0")),
                _ => false,
            };
            if !(fp.path.segments.last().map(|s| s.ident == "permute").unwrap_or(false) && c.args.len() == 1 && v0) {
                return Err("round loop body".into());
            }
        }
        _ => return Err("round loop body is not `self.permute_and_update()`".into()),
    }
    // nothing else may touch the state before the output expression: the remaining statements must be `let`s / the result
    for s in it {
        match s {
            Stmt::Local(_) => {}
            Stmt::Expr(Expr::ForLoop(_), _) | Stmt::Expr(Expr::If(_), _) | Stmt::Expr(Expr::While(_), _) | Stmt::Expr(Expr::Loop(_), _) => return Err("control flow after the round loop".into()),
            _ => {}
        }
    }
    Ok(format!("  let s := if {cond} then {model}.updateRemainder x else x.{st}\n  {model}.rounds {k} s\n"))
}


// ---------------------------------------------------------------------------------------------------------------
// HashPacket (src/internal.rs): `buf: [u8; 32]` is the list `p.buf`, `buf_index` the number `p.idx`, a `&[u8]` parameter
// a list.  Slice operations are mapped by their std meaning:
//   self.buf.get_mut(i..).unwrap_or_default()   a view at offset i of length `buf.length - i` (empty when i is past the end)
//   view[..n].copy_from_slice(src) / view.copy_from_slice(src)
//                                               buf := buf.take off ++ src ++ buf.drop (off + n)      (n = the view's length if whole)
//   data.split_at(n)                            (data.take n, data.drop n)
//   self.buf.get(..i).unwrap_or(&self.buf)      if i ≤ buf.length then buf.take i else buf
struct Pk {
    buf: String,
    idx: String,
    views: Vec<(String, String, String)>, // name -> (offset, length)
    lists: Vec<(String, String)>,         // name -> list term
    packet: u64,
}

impl Pk {
    fn is_self_field(e: &Expr, name: &str) -> bool {
        let e = match e {
            Expr::Reference(r) => &*r.expr,
            o => o,
        };
        if let Expr::Field(f) = e {
            if let (Expr::Path(p), syn::Member::Named(id)) = (&*f.base, &f.member) {
                return p.path.is_ident("self") && id == name;
            }
        }
        false
    }
    fn nat(&self, e: &Expr) -> R<String> {
        match e {
            Expr::Paren(p) => self.nat(&p.expr),
            Expr::Lit(l) => match &l.lit {
                syn::Lit::Int(i) => Ok(i.base10_digits().to_string()),
                _ => Err("literal".into()),
            },
            Expr::Path(p) if p.path.is_ident("PACKET_SIZE") => Ok(self.packet.to_string()),
            _ if Self::is_self_field(e, "buf_index") => Ok(self.idx.clone()),
            Expr::MethodCall(m) if m.method == "len" && m.args.is_empty() => {
                if Self::is_self_field(&m.receiver, "buf") {
                    return Ok(format!("{}.length", self.buf));
                }
                if let Expr::Path(p) = &*m.receiver {
                    let id = p.path.get_ident().ok_or("len receiver")?.to_string();
                    if let Some(v) = self.views.iter().rev().find(|v| v.0 == id) {
                        return Ok(v.2.clone());
                    }
                    if let Some(l) = self.lists.iter().rev().find(|l| l.0 == id) {
                        return Ok(format!("{}.length", l.1));
                    }
                }
                Err("len of an unknown value".into())
            }
            _ => Err(format!("number: {}", quote::quote!(#e).to_string().chars().take(50).collect::<String>())),
        }
    }
    fn list(&self, e: &Expr) -> R<String> {
        match e {
            Expr::Reference(r) => self.list(&r.expr),
            Expr::Paren(p) => self.list(&p.expr),
            Expr::Path(p) => {
                let id = p.path.get_ident().ok_or("list path")?.to_string();
                self.lists.iter().rev().find(|l| l.0 == id).map(|l| l.1.clone()).ok_or_else(|| format!("unknown slice {id}"))
            }
            _ => Err(format!("slice: {}", quote::quote!(#e).to_string().chars().take(50).collect::<String>())),
        }
    }
    fn cond(&self, e: &Expr) -> R<String> {
        match e {
            Expr::Paren(p) => self.cond(&p.expr),
            Expr::Unary(u) if matches!(u.op, syn::UnOp::Not(_)) => Ok(format!("¬ ({})", self.cond(&u.expr)?)),
            Expr::Binary(b) => {
                let (l, r) = (self.nat(&b.left)?, self.nat(&b.right)?);
                match b.op {
                    syn::BinOp::Gt(_) => Ok(format!("{l} > {r}")),
                    syn::BinOp::Lt(_) => Ok(format!("{l} < {r}")),
                    syn::BinOp::Ge(_) => Ok(format!("{l} ≥ {r}")),
                    syn::BinOp::Le(_) => Ok(format!("{l} ≤ {r}")),
                    syn::BinOp::Eq(_) => Ok(format!("({l} == {r}) = true")),
                    _ => Err("comparison".into()),
                }
            }
            Expr::MethodCall(m) if m.method == "is_empty" && m.args.is_empty() => Ok(format!("({}).isEmpty = true", self.list(&m.receiver)?)),
            _ => Err("condition".into()),
        }
    }
    /// `X.copy_from_slice(src)` where X is a view, `view[..n]` or `self.buf[..n]`
    fn copy(&mut self, m: &syn::ExprMethodCall) -> R<()> {
        let src = self.list(m.args.first().ok_or("copy arg")?)?;
        let (off, n) = match &*m.receiver {
            Expr::Path(p) => {
                let id = p.path.get_ident().ok_or("copy receiver")?.to_string();
                let v = self.views.iter().rev().find(|v| v.0 == id).ok_or("copy into an unknown view")?;
                (v.1.clone(), v.2.clone())
            }
            Expr::Index(ix) => {
                let Expr::Range(r) = &*ix.index else { return Err("copy receiver index".into()) };
                if r.start.is_some() || !matches!(r.limits, syn::RangeLimits::HalfOpen(_)) {
                    return Err("copy receiver range".into());
                }
                let n = self.nat(r.end.as_deref().ok_or("copy receiver range")?)?;
                if Self::is_self_field(&ix.expr, "buf") {
                    ("0".to_string(), n)
                } else if let Expr::Path(p) = &*ix.expr {
                    let id = p.path.get_ident().ok_or("copy receiver")?.to_string();
                    let v = self.views.iter().rev().find(|v| v.0 == id).ok_or("copy into an unknown view")?;
                    (v.1.clone(), n)
                } else {
                    return Err("copy receiver".into());
                }
            }
            _ => return Err("copy receiver".into()),
        };
        let b = self.buf.clone();
        self.buf = format!("({b}.take {off} ++ {src} ++ {b}.drop ({off} + {n}))");
        Ok(())
    }
    /// statements of a block; returns the block's value expression (None / Some(x)) if it has one
    fn block(&mut self, stmts: &[Stmt]) -> R<Option<String>> {
        for (i, st) in stmts.iter().enumerate() {
            let last = i + 1 == stmts.len();
            match st {
                Stmt::Macro(m) if m.mac.path.segments.last().map(|s| s.ident.to_string().starts_with("debug_assert")).unwrap_or(false) => {}
                Stmt::Local(l) => {
                    let init = l.init.as_ref().ok_or("let without init")?;
                    match (&l.pat, &*init.expr) {
                        // let dest = self.buf.get_mut(self.buf_index..).unwrap_or_default();
                        (Pat::Ident(pi), Expr::MethodCall(u)) if u.method == "unwrap_or_default" => {
                            let Expr::MethodCall(g) = &*u.receiver else { return Err("view".into()) };
                            if g.method != "get_mut" || !Self::is_self_field(&g.receiver, "buf") || g.args.len() != 1 {
                                return Err("view".into());
                            }
                            let Expr::Range(r) = &g.args[0] else { return Err("view range".into()) };
                            if r.end.is_some() {
                                return Err("view range".into());
                            }
                            let off = self.nat(r.start.as_deref().ok_or("view range")?)?;
                            let len = format!("({}.length - {off})", self.buf);
                            self.views.push((pi.ident.to_string(), off, len));
                        }
                        // let (head, tail) = data.split_at(n);
                        (Pat::Tuple(t), Expr::MethodCall(sp)) if sp.method == "split_at" && sp.args.len() == 1 && t.elems.len() == 2 => {
                            let src = self.list(&sp.receiver)?;
                            let n = self.nat(&sp.args[0])?;
                            let (Pat::Ident(a), Pat::Ident(b)) = (&t.elems[0], &t.elems[1]) else { return Err("split pattern".into()) };
                            self.lists.push((a.ident.to_string(), format!("({src}.take {n})")));
                            self.lists.push((b.ident.to_string(), format!("({src}.drop {n})")));
                        }
                        _ => return Err("let form".into()),
                    }
                }
                Stmt::Expr(Expr::MethodCall(m), Some(_)) if m.method == "copy_from_slice" || m.method == "clone_from_slice" => self.copy(m)?,
                Stmt::Expr(Expr::Assign(a), Some(_)) if Self::is_self_field(&a.left, "buf_index") => {
                    self.idx = self.nat(&a.right)?;
                }
                Stmt::Expr(Expr::Binary(b), Some(_)) if matches!(b.op, syn::BinOp::AddAssign(_)) && Self::is_self_field(&b.left, "buf_index") => {
                    self.idx = format!("({} + {})", self.idx, self.nat(&b.right)?);
                }
                Stmt::Expr(Expr::Path(p), None) if last && p.path.is_ident("None") => return Ok(Some("none".into())),
                Stmt::Expr(Expr::Call(c), None) if last => {
                    if let Expr::Path(p) = &*c.func {
                        if p.path.is_ident("Some") && c.args.len() == 1 {
                            return Ok(Some(format!("some {}", self.list(&c.args[0])?)));
                        }
                    }
                    return Err("result".into());
                }
                _ => return Err(format!("statement: {}", quote::quote!(#st).to_string().chars().take(60).collect::<String>())),
            }
        }
        Ok(None)
    }
}

fn packet_translations(src_dir: &str, ps: u64) -> Vec<(String, R<(String, String)>)> {
    let path = format!("{src_dir}/internal.rs");
    let mut res = Vec::new();
    let fresh = |ps: u64| Pk { buf: "p.buf".into(), idx: "p.idx".into(), views: Vec::new(), lists: vec![("data".into(), "data".into())], packet: ps };
    // fill: optional prelude statements, then `if c { .. } else { .. }` whose branches end in None / Some(tail)
    res.push(("HashPacket::fill".to_string(), (|| {
        let f = find_fn(&path, "HashPacket", "fill")?;
        let mut pk = fresh(ps);
        let n = f.block.stmts.len();
        if n == 0 {
            return Err("empty".into());
        }
        pk.block(&f.block.stmts[..n - 1])?;
        let Stmt::Expr(Expr::If(ife), None) = &f.block.stmts[n - 1] else { return Err("last statement is not the if".into()) };
        let c = pk.cond(&ife.cond)?;
        let mut a = Pk { buf: pk.buf.clone(), idx: pk.idx.clone(), views: pk.views.clone(), lists: pk.lists.clone(), packet: ps };
        let va = a.block(&ife.then_branch.stmts)?.ok_or("then branch has no value")?;
        let Some((_, els)) = &ife.else_branch else { return Err("no else".into()) };
        let Expr::Block(eb) = &**els else { return Err("else form".into()) };
        let mut b = Pk { buf: pk.buf.clone(), idx: pk.idx.clone(), views: pk.views.clone(), lists: pk.lists.clone(), packet: ps };
        let vb = b.block(&eb.block.stmts)?.ok_or("else branch has no value")?;
        let d = format!("def fill (p : Pkt) (data : List (BitVec 8)) : Pkt × Option (List (BitVec 8)) :=\n  if {c} then (⟨{}, {}⟩, {va})\n  else (⟨{}, {}⟩, {vb})\n", a.buf, a.idx, b.buf, b.idx);
        let t = "theorem fill_eq (p : Pkt) (data : List (BitVec 8)) : fill p data = Pkt.fill p data := rfl\n".to_string();
        Ok((d, t))
    })()));
    // set_to: assignments and one optional `if c { copy }`
    res.push(("HashPacket::set_to".to_string(), (|| {
        let f = find_fn(&path, "HashPacket", "set_to")?;
        let mut pk = fresh(ps);
        let mut body = None;
        for (i, st) in f.block.stmts.iter().enumerate() {
            if let Stmt::Expr(Expr::If(ife), _) = st {
                if ife.else_branch.is_some() || body.is_some() {
                    return Err("if form".into());
                }
                let c = pk.cond(&ife.cond)?;
                let mut a = Pk { buf: pk.buf.clone(), idx: pk.idx.clone(), views: pk.views.clone(), lists: pk.lists.clone(), packet: ps };
                a.block(&ife.then_branch.stmts)?;
                if a.idx != pk.idx {
                    return Err("index changed in the branch".into());
                }
                body = Some(format!("  if {c} then ⟨{}, {}⟩ else ⟨{}, {}⟩\n", a.buf, a.idx, pk.buf, pk.idx));
                if i + 1 != f.block.stmts.len() {
                    return Err("statements after the if".into());
                }
            } else {
                pk.block(std::slice::from_ref(st))?;
            }
        }
        let body = body.unwrap_or_else(|| format!("  ⟨{}, {}⟩\n", pk.buf, pk.idx));
        let d = format!("def setTo (p : Pkt) (data : List (BitVec 8)) : Pkt :=\n{body}");
        let t = "theorem setTo_eq (p : Pkt) (data : List (BitVec 8)) : setTo p data = Pkt.setTo p data := by\n  cases data <;> simp [setTo, Pkt.setTo]\n".to_string();
        Ok((d, t))
    })()));
    // len / is_empty / inner / as_slice
    res.push(("HashPacket::len".to_string(), (|| {
        let f = find_fn(&path, "HashPacket", "len")?;
        let pk = fresh(ps);
        let [Stmt::Expr(e, None)] = f.block.stmts.as_slice() else { return Err("form".into()) };
        Ok((format!("def len (p : Pkt) : Nat := {}\n", pk.nat(e)?), "theorem len_eq (p : Pkt) : len p = Pkt.len p := rfl\n".to_string()))
    })()));
    res.push(("HashPacket::is_empty".to_string(), (|| {
        let f = find_fn(&path, "HashPacket", "is_empty")?;
        let pk = fresh(ps);
        let [Stmt::Expr(Expr::Binary(b), None)] = f.block.stmts.as_slice() else { return Err("form".into()) };
        if !matches!(b.op, syn::BinOp::Eq(_)) {
            return Err("form".into());
        }
        Ok((format!("def isEmpty (p : Pkt) : Bool := ({} == {})\n", pk.nat(&b.left)?, pk.nat(&b.right)?), "theorem isEmpty_eq (p : Pkt) : isEmpty p = Pkt.isEmpty p := rfl\n".to_string()))
    })()));
    res.push(("HashPacket::inner".to_string(), (|| {
        let f = find_fn(&path, "HashPacket", "inner")?;
        let [Stmt::Expr(e, None)] = f.block.stmts.as_slice() else { return Err("form".into()) };
        if !Pk::is_self_field(e, "buf") {
            return Err("form".into());
        }
        Ok(("def inner (p : Pkt) : List (BitVec 8) := p.buf\n".to_string(), "theorem inner_eq (p : Pkt) : inner p = Pkt.inner p := rfl\n".to_string()))
    })()));
    res.push(("HashPacket::as_slice".to_string(), (|| {
        let f = find_fn(&path, "HashPacket", "as_slice")?;
        let pk = fresh(ps);
        let stmts: Vec<&Stmt> = f.block.stmts.iter().filter(|s| !matches!(s, Stmt::Macro(m) if m.mac.path.segments.last().map(|x| x.ident.to_string().starts_with("debug_assert")).unwrap_or(false))).collect();
        let [Stmt::Expr(Expr::MethodCall(u), None)] = stmts.as_slice() else { return Err("form".into()) };
        if u.method != "unwrap_or" || u.args.len() != 1 || !Pk::is_self_field(&u.args[0], "buf") {
            return Err("form".into());
        }
        let Expr::MethodCall(g) = &*u.receiver else { return Err("form".into()) };
        if g.method != "get" || !Pk::is_self_field(&g.receiver, "buf") || g.args.len() != 1 {
            return Err("form".into());
        }
        let Expr::Range(r) = &g.args[0] else { return Err("range".into()) };
        if r.start.is_some() || !matches!(r.limits, syn::RangeLimits::HalfOpen(_)) {
            return Err("range".into());
        }
        let i = pk.nat(r.end.as_deref().ok_or("range")?)?;
        let d = format!("def asSlice (p : Pkt) : List (BitVec 8) := if {i} ≤ p.buf.length then p.buf.take {i} else p.buf\n");
        let t = "theorem asSlice_eq (p : Pkt) : asSlice p = Pkt.asSlice p := by\n  unfold asSlice Pkt.asSlice\n  split\n  · rfl\n  · rename_i h; exact (List.take_of_length_le (by omega)).symm\n".to_string();
        Ok((d, t))
    })()));
    res
}

fn main() {
    let args: Vec<String> = std::env::args().collect();
    let src = &args[1];
    let mut out = String::new();
    let mut thms = String::new();
    let mut status: Vec<(String, String)> = Vec::new();
    out.push_str("-- GENERATED by /verif/harness/facts (skelgen) from the `append` / `finalizeN` functions of all five back ends; do not edit.\nimport HH.Portable\nimport HH.Sse\nimport HH.Avx\nimport HH.Neon\nimport HH.WasmB\nnamespace HH.Gen.Skel\n\n");
    let ps = packet_size(src).unwrap_or(0);
    for (file, ty, tag, model, st, regs) in [
        ("portable.rs", "PortableHash", "portable", "HH.P", "st", "HH.St"),
        ("x86/sse.rs", "SseHash", "sse", "HH.Sse", "r", "HH.Sse.Regs"),
        ("x86/avx.rs", "AvxHash", "avx", "HH.Avx", "r", "HH.Avx.Regs"),
        ("aarch64.rs", "NeonHash", "neon", "HH.NeonB", "r", "HH.NeonB.Regs"),
        ("wasm.rs", "WasmHash", "wasm", "HH.WasmB", "r", "HH.WasmB.Regs"),
    ] {
        let path = format!("{src}/{file}");
        // append
        let r: R<(String, String)> = (|| {
            let f = find_fn(&path, ty, "append")?;
            let mut tr = Tr { lines: Vec::new(), fresh: 0, chunk_size: ps, chunks: Vec::new() };
            let _ = &tr.lines;
            let body = tr.block(&f.block.stmts, "x.1".into(), "x.2".into(), 2)?;
            let d = format!("def append_{tag} {{S : Type}} (upd : S → List (BitVec 8) → S) (x : S × Pkt) (data : List (BitVec 8)) : S × Pkt :=\n{body}");
            let t = format!("theorem append_{tag}_eq {{S : Type}} (upd : S → List (BitVec 8) → S) (x : S × Pkt) (data : List (BitVec 8)) :\n    append_{tag} upd x data = HH.appendG upd x data := rfl\n/-- the model of `{ty}::append` is this skeleton instantiated with `update ∘ data_to_lanes` -/\ntheorem append_{tag}_model (x : {model}.State) (data : List (BitVec 8)) :\n    {model}.append x data = ⟨(append_{tag} {model}.updPacket (x.{st}, x.buffer) data).1, (append_{tag} {model}.updPacket (x.{st}, x.buffer) data).2⟩ := rfl\n");
            Ok((d, t))
        })();
        match r {
            Ok((d, t)) => {
                out.push_str(&d);
                out.push('\n');
                thms.push_str(&t);
                thms.push('\n');
                status.push((format!("{ty}::append"), "translated".into()));
            }
            Err(e) => status.push((format!("{ty}::append"), format!("skipped: {e}"))),
        }
        for (fname, k) in [("finalize64", 4u64), ("finalize128", 6), ("finalize256", 10)] {
            let r: R<(String, String)> = (|| {
                let f = find_fn(&path, ty, fname)?;
                let body = prologue(&f, model, st)?;
                let d = format!("def {fname}_pro_{tag} (x : {model}.State) : {regs} :=\n{body}");
                let t = format!("theorem {fname}_pro_{tag}_eq (x : {model}.State) : {fname}_pro_{tag} x = {model}.finalizeCommon {k} x := rfl\n");
                Ok((d, t))
            })();
            match r {
                Ok((d, t)) => {
                    out.push_str(&d);
                    out.push('\n');
                    thms.push_str(&t);
                    thms.push('\n');
                    status.push((format!("{ty}::{fname}"), "translated".into()));
                }
                Err(e) => status.push((format!("{ty}::{fname}"), format!("skipped: {e}"))),
            }
        }
    }
    // Default impls: `X::default()` is the constructor applied to the derived (all-zero) `Key::default()`
    let key_zero = key_derives_default(src);
    for (file, ty, tag, model) in [
        ("portable.rs", "PortableHash", "portable", "HH.P"),
        ("x86/sse.rs", "SseHash", "sse", "HH.Sse"),
        ("x86/avx.rs", "AvxHash", "avx", "HH.Avx"),
        ("aarch64.rs", "NeonHash", "neon", "HH.NeonB"),
        ("wasm.rs", "WasmHash", "wasm", "HH.WasmB"),
    ] {
        let r: R<(String, String)> = (|| {
            if !key_zero {
                return Err("Key does not derive Default on a single [u64; 4] field".into());
            }
            let f = find_trait_fn(&format!("{src}/{file}"), ty, "Default", "default")?;
            let ctor = default_ctor(&f, ty)?;
            if ctor != "new" && ctor != "force_new" {
                return Err(format!("constructor {ctor}"));
            }
            let d = format!("/-- `impl Default for {ty}`: `{ty}::{ctor}(Key::default())`, `Key` deriving `Default` -/\ndef default_{tag} : {model}.State := {model}.new V4.zero\n");
            let t = format!("theorem default_{tag}_eq : default_{tag} = {model}.default := rfl\n");
            Ok((d, t))
        })();
        match r {
            Ok((d, t)) => {
                out.push_str(&d);
                out.push('\n');
                thms.push_str(&t);
                thms.push('\n');
                status.push((format!("{ty}::default"), "translated".into()));
            }
            Err(e) => status.push((format!("{ty}::default"), format!("skipped: {e}"))),
        }
    }
    // the dispatcher's Default forwards to its own ladder
    {
        let r: R<()> = (|| {
            let f = find_trait_fn(&format!("{src}/builder.rs"), "HighwayHasher", "Default", "default")?;
            if default_ctor(&f, "HighwayHasher")? != "new" {
                return Err("not HighwayHasher::new".into());
            }
            Ok(())
        })();
        status.push(("HighwayHasher::default".into(), match r { Ok(()) => "translated".into(), Err(e) => format!("skipped: {e}") }));
    }
    // std adapters (src/macros.rs): the machine models exactly four one-line forwards; an additional overridden provided
    // method (write_vectored, write_all, write_u64, ..) or a different body is outside the modelled shape
    for (mac, tr, want) in [
        ("impl_write", "Write", &[("write", "{crate::HighwayHash::append(self,bytes);Ok(bytes.len())}"), ("flush", "{Ok(())}")][..]),
        ("impl_hasher", "Hasher", &[("write", "{crate::HighwayHash::append(self,bytes);}"), ("finish", "{crate::HighwayHash::finalize64(self.clone())}")][..]),
    ] {
        let r: R<()> = (|| {
            let msrc = std::fs::read_to_string(format!("{src}/macros.rs")).map_err(|e| format!("macros.rs: {e}"))?;
            let mfile = syn::parse_file(&msrc).map_err(|e| format!("macros.rs: {e}"))?;
            let mut body = None;
            for it in &mfile.items {
                if let Item::Macro(m) = it {
                    if m.ident.as_ref().map(|i| i == mac).unwrap_or(false) {
                        // `( $hasher_struct : ty ) => { .. }`: the last brace group is the expansion
                        let mut last = None;
                        let mut n_rules = 0;
                        for t in m.mac.tokens.clone() {
                            if let proc_macro2::TokenTree::Group(g) = &t {
                                if g.delimiter() == proc_macro2::Delimiter::Brace {
                                    last = Some(g.stream().to_string());
                                    n_rules += 1;
                                }
                            }
                        }
                        if n_rules != 1 {
                            return Err("macro has more than one rule".into());
                        }
                        body = last;
                    }
                }
            }
            let body = body.ok_or("macro not found")?.replace("$ hasher_struct", "HasherStruct").replace("$hasher_struct", "HasherStruct").replace("$ crate", "crate").replace("$crate", "crate");
            let f: syn::File = syn::parse_str(&body).map_err(|e| format!("expansion does not parse: {e}"))?;
            let mut seen = 0;
            for it in &f.items {
                let Item::Impl(im) = it else { return Err("expansion contains a non-impl item".into()) };
                let trn = im.trait_.as_ref().and_then(|t| t.1.segments.last().map(|s| s.ident.to_string())).unwrap_or_default();
                if trn != tr {
                    return Err(format!("expansion implements {trn}"));
                }
                for ii in &im.items {
                    let ImplItem::Fn(fun) = ii else { continue };
                    let name = fun.sig.ident.to_string();
                    let b = { let b = &fun.block; quote::quote!(#b).to_string().replace(' ', "") };
                    match want.iter().find(|w| w.0 == name) {
                        Some((_, w)) if *w == b => seen += 1,
                        Some(_) => return Err(format!("{tr}::{name} has a different body")),
                        None => return Err(format!("{tr}::{name} is overridden (the machine models the provided method)")),
                    }
                }
            }
            if seen != want.len() {
                return Err("a required method is missing".into());
            }
            Ok(())
        })();
        status.push((format!("{mac}!"), match r { Ok(()) => "translated".into(), Err(e) => format!("skipped: {e}") }));
    }
    // HashPacket
    out.push_str("namespace Packet\n\n");
    thms.push_str("namespace Packet\n\n");
    for (name, r) in packet_translations(src, ps) {
        match r {
            Ok((d, t)) => {
                out.push_str(&d);
                out.push('\n');
                thms.push_str(&t);
                thms.push('\n');
                status.push((name, "translated".into()));
            }
            Err(e) => status.push((name, format!("skipped: {e}"))),
        }
    }
    out.push_str("end Packet\n\n");
    thms.push_str("end Packet\n\n");
    out.push_str("/-! ### the translated control skeletons equal the model's, for every state and every byte string -/\n\n");
    out.push_str(&thms);
    out.push_str("end HH.Gen.Skel\n");
    std::fs::write(&args[2], out).expect("write lean");
    let js: Vec<String> = status.iter().map(|(n, s)| format!("  {:?}: {:?}", n, s)).collect();
    std::fs::write(&args[3], format!("{{\n{}\n}}\n", js.join(",\n"))).expect("write status");
    for (n, s) in &status {
        println!("skelgen {n}: {s}");
    }
}
