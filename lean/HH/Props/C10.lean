import HH.Proofs.MachineLemmas
import HH.Props.C02
/-!
# C10 — back-end selection is valid and consistent in every build configuration

The configuration space of the selection ladders is finite: 4 target classes × std × two
compile-time target features × two detected CPU features = 128 rows; every statement below is
proved for all of them (case analysis, checked by the kernel).
-/
namespace HH.C10

/-- the ladder of `HighwayHasher::new` only ever picks a back end the configuration permits -/
theorem select_permitted (c : Cfg) (cpu : Cpu) : Permitted c cpu (selectNew c cpu) := by
  obtain ⟨arch, std, s, a⟩ := c
  obtain ⟨cs, ca⟩ := cpu
  cases arch <;> cases std <;> cases s <;> cases a <;> cases cs <;> cases ca <;> decide

/-- the textually separate ladder of `from_checkpoint` makes the same choice -/
theorem restore_eq_new (c : Cfg) (cpu : Cpu) : selectRestore c cpu = selectNew c cpu := by
  obtain ⟨arch, std, s, a⟩ := c
  obtain ⟨cs, ca⟩ := cpu
  cases arch <;> cases std <;> cases s <;> cases a <;> cases cs <;> cases ca <;> rfl

/-- when no SIMD back end is permitted, portable is selected -/
theorem portable_when_no_simd (c : Cfg) (cpu : Cpu) (h : NoSimdPermitted c cpu) : selectNew c cpu = .portable := by
  obtain ⟨arch, std, s, a⟩ := c
  obtain ⟨cs, ca⟩ := cpu
  cases arch <;> cases std <;> cases s <;> cases a <;> cases cs <;> cases ca <;>
    first | rfl | (exfalso; simp [NoSimdPermitted, Permitted] at h)

/-- a SIMD back end is selected only when enabled at compile time or (with std) detected -/
theorem simd_only_if_enabled (c : Cfg) (cpu : Cpu) :
    (selectNew c cpu = .avx → c.tfAvx2 = true ∨ (c.std = true ∧ cpu.avx2 = true)) ∧
    (selectNew c cpu = .sse → c.tfSse41 = true ∨ (c.std = true ∧ cpu.sse41 = true)) := by
  have := select_permitted c cpu
  constructor <;> intro h <;> rw [h] at this <;> exact this.2

/-- the tag names a member of the union that exists for the target (so `unreachable_unchecked` in
the per-tag dispatch is never reached) -/
def tagValid (a : Arch) (b : Backend) : Prop :=
  match a with
  | .x86_64 => b = .portable ∨ b = .avx ∨ b = .sse
  | .aarch64 => b = .neon
  | .wasmSimd => b = .wasm
  | .other => b = .portable

theorem select_tag_valid (c : Cfg) (cpu : Cpu) : tagValid c.arch (selectNew c cpu) := by
  obtain ⟨arch, std, s, a⟩ := c
  obtain ⟨cs, ca⟩ := cpu
  cases arch <;> cases std <;> cases s <;> cases a <;> cases cs <;> cases ca <;> simp [tagValid, selectNew]

/-- the explicit SIMD constructors return a hasher only when the feature is detected (with std) -/
theorem ctor_some_iff (c : Cfg) (cpu : Cpu) :
    (sseCtorSome c cpu = true ↔ c.std = true ∧ cpu.sse41 = true) ∧
    (avxCtorSome c cpu = true ↔ c.std = true ∧ cpu.avx2 = true) := by
  simp [sseCtorSome, avxCtorSome]

/-- every auto handle of the world carries the back end the ladder selects -/
def AutoOK (env : Env) (w : World) : Prop :=
  ∀ i x, w.get i = some x → x.auto = true → x.h.backend = selectNew env.cfg env.cpu

theorem append_backend (h : Hasher) (d : List (BitVec 8)) : (h.append d).backend = h.backend := by
  cases h <;> rfl

theorem foldl_append_backend (ws : List (List (BitVec 8))) : ∀ h : Hasher, (ws.foldl Hasher.append h).backend = h.backend := by
  induction ws with
  | nil => intro h; rfl
  | cons c cs ih => intro h; simp only [List.foldl_cons]; rw [ih, append_backend]

theorem new_backend (b : Backend) (k : V4) (h : Hasher) (e : Hasher.new b k = some h) : h.backend = b := by
  cases b <;> simp [Hasher.new] at e <;> subst e <;> rfl
theorem default_backend (b : Backend) (h : Hasher) (e : Hasher.default b = some h) : h.backend = b := by
  cases b <;> simp [Hasher.default] at e <;> subst e <;> rfl
theorem restore_backend (b : Backend) (c : List (BitVec 8)) (h : Hasher) (e : Hasher.fromCheckpoint b c = some h) :
    h.backend = b := by
  cases b <;> simp [Hasher.fromCheckpoint] at e <;> subst e <;> rfl

theorem construct_auto (env : Env) (sel : Sel) (force restore : Bool) (mk : Backend → Option Hasher)
    (hmk : ∀ b h, mk b = some h → h.backend = b) (x : Handle)
    (e : construct env sel force restore mk = some x) (ha : x.auto = true) :
    x.h.backend = selectNew env.cfg env.cpu := by
  unfold construct at e
  cases sel with
  | auto =>
    simp only [resolve] at e
    cases hm : mk (if restore = true then selectRestore env.cfg env.cpu else selectNew env.cfg env.cpu) with
    | none => simp [hm] at e
    | some h =>
      simp only [hm, Option.map_some, Option.some.injEq] at e
      subst e
      have := hmk _ _ hm
      simp only [mkHandle]
      rw [this]
      cases restore <;> simp [restore_eq_new]
  | only b =>
    split at e
    · rename_i b' _
      cases hm : mk b' with
      | none => simp [hm] at e
      | some h =>
        simp only [hm, Option.map_some, Option.some.injEq] at e
        subst e
        simp [mkHandle] at ha
    · simp at e

/-- consistency: whichever way a `HighwayHasher` is obtained (new, default, restore, clone) and
whatever is done to it, it carries the selected back end — an invariant of every history -/
theorem step_autoOK (env : Env) (w : World) (op : Op) (hw : AutoOK env w) : AutoOK env (step env w op).1 := by
  intro i x hx ha
  cases op <;> simp only [step] at hx
  case reset => simp [World.get_nil] at hx
  case new h sel force key =>
    split at hx
    · rename_i y hy
      rw [World.get_put] at hx
      split at hx
      · simp only [Option.some.injEq] at hx; subst hx
        exact construct_auto env sel force false _ (fun b h e => new_backend b key h e) _ hy ha
      · exact hw i x hx ha
    · rw [World.get_del] at hx; split at hx <;> [simp at hx; exact hw i x hx ha]
  case default h sel =>
    split at hx
    · rename_i y hy
      rw [World.get_put] at hx
      split at hx
      · simp only [Option.some.injEq] at hx; subst hx
        exact construct_auto env sel true false _ default_backend _ hy ha
      · exact hw i x hx ha
    · rw [World.get_del] at hx; split at hx <;> [simp at hx; exact hw i x hx ha]
  case restore h sel force c =>
    split at hx
    · rename_i y hy
      rw [World.get_put] at hx
      split at hx
      · simp only [Option.some.injEq] at hx; subst hx
        exact construct_auto env sel force true _ (fun b h e => restore_backend b c h e) _ hy ha
      · exact hw i x hx ha
    · rw [World.get_del] at hx; split at hx <;> [simp at hx; exact hw i x hx ha]
  case restoreH h sel force src =>
    split at hx
    · exact hw i x hx ha
    · rename_i s hs
      split at hx
      · rename_i y hy
        rw [World.get_put] at hx
        split at hx
        · simp only [Option.some.injEq] at hx; subst hx
          exact construct_auto env sel force true _ (fun b h e => restore_backend b _ h e) _ hy ha
        · exact hw i x hx ha
      · rw [World.get_del] at hx; split at hx <;> [simp at hx; exact hw i x hx ha]
  case append h d =>
    split at hx
    · exact hw i x hx ha
    · rename_i y hy
      rw [World.get_put] at hx
      split at hx
      · simp only [Option.some.injEq] at hx; subst hx
        simp only [append_backend]
        exact hw _ y hy ha
      · exact hw i x hx ha
  case ioWrite h d =>
    split at hx
    · exact hw i x hx ha
    · rename_i y hy
      rw [World.get_put] at hx
      split at hx
      · simp only [Option.some.injEq] at hx; subst hx
        simp only [append_backend]
        exact hw _ y hy ha
      · exact hw i x hx ha
  case clone src dst =>
    split at hx
    · exact hw i x hx ha
    · rename_i y hy
      rw [World.get_put] at hx
      split at hx
      · simp only [Option.some.injEq] at hx; subst hx; exact hw _ _ hy ha
      · exact hw i x hx ha
  case fin h wd =>
    split at hx
    · exact hw i x hx ha
    · rw [World.get_del] at hx; split at hx <;> [simp at hx; exact hw i x hx ha]
  case ckpt h => split at hx <;> exact hw i x hx ha
  case finish h => split at hx <;> exact hw i x hx ha
  case flush h => split at hx <;> exact hw i x hx ha
  case drop h =>
    split at hx
    · exact hw i x hx ha
    · rw [World.get_del] at hx; split at hx <;> [simp at hx; exact hw i x hx ha]
  case debug h => split at hx <;> exact hw i x hx ha
  case hash => split at hx <;> exact hw i x hx ha
  case hashOne => split at hx <;> exact hw i x hx ha
  case writes h ws =>
    split at hx
    · exact hw i x hx ha
    · rename_i y hy
      rw [World.get_put] at hx
      split at hx
      · simp only [Option.some.injEq] at hx; subst hx
        simp only [foldl_append_backend]
        exact hw _ y hy ha
      · exact hw i x hx ha

theorem run_autoOK (env : Env) (ops : List Op) : ∀ w, AutoOK env w → AutoOK env (run env w ops).1 := by
  induction ops with
  | nil => intro w hw; exact hw
  | cons op ops ih => intro w hw; simp only [run]; exact ih _ (step_autoOK env w op hw)

/-- from the empty world: every `HighwayHasher` ever observed has the permitted, selected back end -/
theorem reachable_auto_permitted (env : Env) (ops : List Op) (i : Nat) (x : Handle)
    (hx : (run env [] ops).1.get i = some x) (ha : x.auto = true) :
    x.h.backend = selectNew env.cfg env.cpu ∧ Permitted env.cfg env.cpu x.h.backend := by
  have h := run_autoOK env ops [] (fun i x hx _ => by simp [World.get_nil] at hx) i x hx ha
  exact ⟨h, h ▸ select_permitted _ _⟩

end HH.C10
