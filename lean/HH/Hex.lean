import HH.Basic
/-! # HH.Hex — hex parsing / printing for the line protocol (driver only, nothing is proved here) -/
namespace HH

def hexDigit? (c : Char) : Option Nat :=
  if '0' ≤ c ∧ c ≤ '9' then some (c.toNat - '0'.toNat)
  else if 'a' ≤ c ∧ c ≤ 'f' then some (c.toNat - 'a'.toNat + 10)
  else if 'A' ≤ c ∧ c ≤ 'F' then some (c.toNat - 'A'.toNat + 10)
  else none

def parseHexNat? (s : String) : Option Nat :=
  if s.isEmpty then none else
  s.foldl (fun acc c => match acc, hexDigit? c with
    | some a, some d => some (a * 16 + d)
    | _, _ => none) (some 0)

/-- `"-"` is the empty byte string; otherwise an even number of hex digits -/
def parseBytes? (s : String) : Option (List (BitVec 8)) :=
  if s == "-" then some [] else
  let cs := s.toList
  if cs.length % 2 ≠ 0 then none else
  let rec go : List Char → List (BitVec 8) → Option (List (BitVec 8))
    | a :: b :: rest, acc => match hexDigit? a, hexDigit? b with
        | some x, some y => go rest (BitVec.ofNat 8 (x * 16 + y) :: acc)
        | _, _ => none
    | [], acc => some acc.reverse
    | _, _ => none
  go cs []

def hexChar (n : Nat) : Char :=
  if n < 10 then Char.ofNat ('0'.toNat + n) else Char.ofNat ('a'.toNat + (n - 10))

def byteHex (b : BitVec 8) : String :=
  String.ofList [hexChar (b.toNat / 16), hexChar (b.toNat % 16)]

def bytesHex (bs : List (BitVec 8)) : String :=
  if bs.isEmpty then "-" else String.ofList (bs.flatMap fun b => [hexChar (b.toNat / 16), hexChar (b.toNat % 16)])

/-- `{:016x}` -/
def u64Hex (x : BitVec 64) : String :=
  String.ofList ((List.range 16).map fun i => hexChar ((x.toNat >>> (4 * (15 - i))) % 16))

def parseU64? (s : String) : Option (BitVec 64) := (parseHexNat? s).map (BitVec.ofNat 64)

end HH
