// Shared, allocation-free executor of the line protocol on the REAL crate.
// Included (via #[path]) by every runner: native `drive`, the Miri cross-target runners, the
// no_std/no_main wasm runner.  One operation per line in, one canonical result per line out.
#![allow(dead_code, unused_variables, unused_mut, clippy::all)]

use core::fmt::Write as FmtWrite;
use core::hash::Hasher as CoreHasher;
use core::hash::BuildHasher as _;
use highway::{HighwayBuildHasher, HighwayHash, HighwayHasher, Key, PortableHash};
#[cfg(target_arch = "x86_64")]
use highway::{AvxHash, SseHash};
#[cfg(target_arch = "aarch64")]
use highway::NeonHash;
#[cfg(all(target_family = "wasm", target_feature = "simd128"))]
use highway::WasmHash;

#[path = "intrin.rs"]
pub mod intrin;

pub const NH: usize = 32;

fn parse_u128_hex(s: &[u8]) -> Option<u128> {
    if s.is_empty() || s.len() > 32 {
        return None;
    }
    let mut v: u128 = 0;
    for &c in s {
        v = (v << 4) | hexval(c)? as u128;
    }
    Some(v)
}

#[derive(Clone)]
pub enum AnyHasher {
    Portable(PortableHash),
    Auto(HighwayHasher),
    #[cfg(target_arch = "x86_64")]
    Sse(SseHash),
    #[cfg(target_arch = "x86_64")]
    Avx(AvxHash),
    #[cfg(target_arch = "aarch64")]
    Neon(NeonHash),
    #[cfg(all(target_family = "wasm", target_feature = "simd128"))]
    Wasm(WasmHash),
}

macro_rules! each {
    ($s:expr, $h:ident => $e:expr) => {
        match $s {
            AnyHasher::Portable($h) => $e,
            AnyHasher::Auto($h) => $e,
            #[cfg(target_arch = "x86_64")]
            AnyHasher::Sse($h) => $e,
            #[cfg(target_arch = "x86_64")]
            AnyHasher::Avx($h) => $e,
            #[cfg(target_arch = "aarch64")]
            AnyHasher::Neon($h) => $e,
            #[cfg(all(target_family = "wasm", target_feature = "simd128"))]
            AnyHasher::Wasm($h) => $e,
        }
    };
}

/// like `each!` but for operations through `core::hash::Hasher` / `std::io::Write`, which
/// `NeonHash` does not implement (src/aarch64.rs has no impl_write!/impl_hasher!): the Neon arm
/// reports `unsupported`.
macro_rules! each_t {
    ($s:expr, $out:expr, $h:ident => $e:expr) => {
        match $s {
            AnyHasher::Portable($h) => $e,
            AnyHasher::Auto($h) => $e,
            #[cfg(target_arch = "x86_64")]
            AnyHasher::Sse($h) => $e,
            #[cfg(target_arch = "x86_64")]
            AnyHasher::Avx($h) => $e,
            #[cfg(target_arch = "aarch64")]
            AnyHasher::Neon(_) => {
                $out.s("unsupported");
                return;
            }
            #[cfg(all(target_family = "wasm", target_feature = "simd128"))]
            AnyHasher::Wasm($h) => $e,
        }
    };
}

/// CPU features as the harness sees them (std detection natively; constants elsewhere).
#[derive(Clone, Copy)]
pub struct Cpu {
    pub sse41: bool,
    pub avx2: bool,
}

/// fixed-size formatting sink (Debug output goes here: caller-supplied, no allocation)
pub struct FixedBuf<const N: usize> {
    pub buf: [u8; N],
    pub len: usize,
}
impl<const N: usize> FixedBuf<N> {
    pub fn new() -> Self {
        FixedBuf { buf: [0; N], len: 0 }
    }
    pub fn as_bytes(&self) -> &[u8] {
        &self.buf[..self.len]
    }
}
impl<const N: usize> FmtWrite for FixedBuf<N> {
    fn write_str(&mut self, s: &str) -> core::fmt::Result {
        let b = s.as_bytes();
        let n = core::cmp::min(b.len(), N - self.len);
        self.buf[self.len..self.len + n].copy_from_slice(&b[..n]);
        self.len += n;
        Ok(())
    }
}

fn hexval(c: u8) -> Option<u8> {
    match c {
        b'0'..=b'9' => Some(c - b'0'),
        b'a'..=b'f' => Some(c - b'a' + 10),
        b'A'..=b'F' => Some(c - b'A' + 10),
        _ => None,
    }
}

/// decode hex (or "-" for empty) into `out`, returns length
pub fn unhex(s: &[u8], out: &mut [u8]) -> Option<usize> {
    if s == b"-" {
        return Some(0);
    }
    if s.len() % 2 != 0 || s.len() / 2 > out.len() {
        return None;
    }
    let mut i = 0;
    while i < s.len() / 2 {
        out[i] = hexval(s[2 * i])? * 16 + hexval(s[2 * i + 1])?;
        i += 1;
    }
    Some(s.len() / 2)
}

fn parse_u64_hex(s: &[u8]) -> Option<u64> {
    if s.is_empty() || s.len() > 16 {
        return None;
    }
    let mut v: u64 = 0;
    for &c in s {
        v = (v << 4) | hexval(c)? as u64;
    }
    Some(v)
}

fn parse_dec(s: &[u8]) -> Option<usize> {
    if s.is_empty() {
        return None;
    }
    let mut v: usize = 0;
    for &c in s {
        if !(b'0'..=b'9').contains(&c) {
            return None;
        }
        v = v.checked_mul(10)?.checked_add((c - b'0') as usize)?;
    }
    Some(v)
}

const HEXD: &[u8; 16] = b"0123456789abcdef";

pub struct Out<'a> {
    pub emit: &'a mut dyn FnMut(&[u8]),
}
impl<'a> Out<'a> {
    pub fn s(&mut self, s: &str) {
        (self.emit)(s.as_bytes())
    }
    pub fn bytes_hex(&mut self, b: &[u8]) {
        if b.is_empty() {
            self.s("-");
            return;
        }
        let mut tmp = [0u8; 64];
        for ch in b.chunks(32) {
            for (i, x) in ch.iter().enumerate() {
                tmp[2 * i] = HEXD[(x >> 4) as usize];
                tmp[2 * i + 1] = HEXD[(x & 15) as usize];
            }
            (self.emit)(&tmp[..2 * ch.len()]);
        }
    }
    pub fn u64_hex(&mut self, v: u64) {
        let mut tmp = [0u8; 16];
        for i in 0..16 {
            tmp[i] = HEXD[((v >> (4 * (15 - i))) & 15) as usize];
        }
        (self.emit)(&tmp);
    }
    pub fn dec(&mut self, mut v: usize) {
        let mut tmp = [0u8; 24];
        let mut i = tmp.len();
        if v == 0 {
            i -= 1;
            tmp[i] = b'0';
        }
        while v > 0 {
            i -= 1;
            tmp[i] = b'0' + (v % 10) as u8;
            v /= 10;
        }
        (self.emit)(&tmp[i..]);
    }
    pub fn nl(&mut self) {
        (self.emit)(b"\n")
    }
}

#[derive(Clone, Copy, PartialEq)]
pub enum Sel {
    Portable,
    Sse,
    Avx,
    Neon,
    Wasm,
    Auto,
}

fn parse_sel(s: &[u8]) -> Option<Sel> {
    Some(match s {
        b"portable" => Sel::Portable,
        b"sse" => Sel::Sse,
        b"avx" => Sel::Avx,
        b"neon" => Sel::Neon,
        b"wasm" => Sel::Wasm,
        b"auto" => Sel::Auto,
        _ => return None,
    })
}

pub fn backend_code(h: &AnyHasher) -> usize {
    match h {
        AnyHasher::Portable(_) => 0,
        AnyHasher::Auto(_) => 9,
        #[cfg(target_arch = "x86_64")]
        AnyHasher::Avx(_) => 1,
        #[cfg(target_arch = "x86_64")]
        AnyHasher::Sse(_) => 2,
        #[cfg(target_arch = "aarch64")]
        AnyHasher::Neon(_) => 3,
        #[cfg(all(target_family = "wasm", target_feature = "simd128"))]
        AnyHasher::Wasm(_) => 4,
    }
}

/// safe constructors (`force == false`) or the unsafe `force_*` ones, guarded by the harness's
/// own view of the CPU so that the process never executes an unsupported instruction.
fn construct(sel: Sel, force: bool, cpu: Cpu, key: Option<Key>, ckpt: Option<[u8; 164]>, dflt: bool) -> Option<AnyHasher> {
    match sel {
        Sel::Portable => Some(AnyHasher::Portable(if dflt {
            PortableHash::default()
        } else if let Some(k) = key {
            PortableHash::new(k)
        } else {
            PortableHash::from_checkpoint(ckpt?)
        })),
        Sel::Auto => Some(AnyHasher::Auto(if dflt {
            HighwayHasher::default()
        } else if let Some(k) = key {
            HighwayHasher::new(k)
        } else {
            HighwayHasher::from_checkpoint(ckpt?)
        })),
        #[cfg(target_arch = "x86_64")]
        Sel::Sse => {
            if dflt {
                if cpu.sse41 { Some(AnyHasher::Sse(SseHash::default())) } else { None }
            } else if force {
                if !cpu.sse41 {
                    return None;
                }
                Some(AnyHasher::Sse(unsafe {
                    if let Some(k) = key { SseHash::force_new(k) } else { SseHash::force_from_checkpoint(ckpt?) }
                }))
            } else if let Some(k) = key {
                SseHash::new(k).map(AnyHasher::Sse)
            } else {
                SseHash::from_checkpoint(ckpt?).map(AnyHasher::Sse)
            }
        }
        #[cfg(target_arch = "x86_64")]
        Sel::Avx => {
            if dflt {
                if cpu.avx2 { Some(AnyHasher::Avx(AvxHash::default())) } else { None }
            } else if force {
                if !cpu.avx2 {
                    return None;
                }
                Some(AnyHasher::Avx(unsafe {
                    if let Some(k) = key { AvxHash::force_new(k) } else { AvxHash::force_from_checkpoint(ckpt?) }
                }))
            } else if let Some(k) = key {
                AvxHash::new(k).map(AnyHasher::Avx)
            } else {
                AvxHash::from_checkpoint(ckpt?).map(AnyHasher::Avx)
            }
        }
        #[cfg(target_arch = "aarch64")]
        Sel::Neon => Some(AnyHasher::Neon(unsafe {
            if dflt {
                NeonHash::default()
            } else if let Some(k) = key {
                NeonHash::force_new(k)
            } else {
                NeonHash::force_from_checkpoint(ckpt?)
            }
        })),
        #[cfg(all(target_family = "wasm", target_feature = "simd128"))]
        Sel::Wasm => Some(AnyHasher::Wasm(if dflt {
            WasmHash::default()
        } else if let Some(k) = key {
            WasmHash::new(k)
        } else {
            WasmHash::from_checkpoint(ckpt?)
        })),
        #[allow(unreachable_patterns)]
        _ => None,
    }
}

pub struct Machine {
    pub hs: [Option<AnyHasher>; NH],
    pub cpu: Cpu,
}

impl Machine {
    pub fn new(cpu: Cpu) -> Self {
        Machine { hs: core::array::from_fn(|_| None), cpu }
    }

    fn fin(h: AnyHasher, w: &[u8], out: &mut Out) -> bool {
        match w {
            b"64" => {
                let r = each!(h, x => x.finalize64());
                out.u64_hex(r);
            }
            b"128" => {
                let r = each!(h, x => x.finalize128());
                out.u64_hex(r[0]);
                out.u64_hex(r[1]);
            }
            b"256" => {
                let r = each!(h, x => x.finalize256());
                for v in r {
                    out.u64_hex(v);
                }
            }
            _ => return false,
        }
        true
    }

    /// Execute one line; writes exactly one output line (without the newline).
    pub fn exec(&mut self, line: &[u8], scratch: &mut [u8], out: &mut Out) {
        let mut toks: [&[u8]; 10] = [b""; 10];
        let mut n = 0;
        for t in line.split(|&c| c == b' ') {
            if n < 10 {
                toks[n] = t;
                n += 1;
            } else {
                out.s("bad-op");
                return;
            }
        }
        if n == 1 && toks[0].is_empty() {
            return;
        }
        let op = toks[0];
        macro_rules! bad {
            () => {{
                out.s("bad-op");
                return;
            }};
        }
        macro_rules! handle {
            ($i:expr) => {
                match parse_dec(toks[$i]) {
                    Some(h) if h < NH => h,
                    _ => bad!(),
                }
            };
        }
        match (op, n) {
            (b"intrin", _) if n >= 4 => {
                #[cfg(target_arch = "x86_64")]
                {
                    if !self.cpu.avx2 {
                        out.s("none");
                        return;
                    }
                    let Some(imm) = parse_dec(toks[2]) else { bad!() };
                    let mut ops = [0u128; 6];
                    let mut k = 0;
                    for t in &toks[3..n] {
                        let Some(v) = parse_u128_hex(t) else { bad!() };
                        ops[k] = v;
                        k += 1;
                    }
                    match unsafe { intrin::x86::run(toks[1], imm, &ops[..k]) } {
                        Some((lo, hi)) => {
                            out.u64_hex((lo >> 64) as u64);
                            out.u64_hex(lo as u64);
                            if let Some(h) = hi {
                                out.s(" ");
                                out.u64_hex((h >> 64) as u64);
                                out.u64_hex(h as u64);
                            }
                        }
                        None => out.s("bad-op"),
                    }
                }
                #[cfg(not(target_arch = "x86_64"))]
                out.s("none");
            }
            (b"reset", 1) => {
                for h in self.hs.iter_mut() {
                    *h = None;
                }
                out.s("ok");
            }
            (b"new", 7) | (b"fnew", 7) => {
                let h = handle!(1);
                let Some(sel) = parse_sel(toks[2]) else { bad!() };
                let (Some(a), Some(b), Some(c), Some(d)) =
                    (parse_u64_hex(toks[3]), parse_u64_hex(toks[4]), parse_u64_hex(toks[5]), parse_u64_hex(toks[6]))
                else { bad!() };
                let r = construct(sel, op == b"fnew", self.cpu, Some(Key([a, b, c, d])), None, false);
                out.s(if r.is_some() { "ok" } else { "none" });
                self.hs[h] = r;
            }
            (b"bh", 6) => {
                // a hasher handed out by the collection builder: `HighwayBuildHasher::new(key).build_hasher()`
                let h = handle!(1);
                let (Some(a), Some(b), Some(c), Some(d)) =
                    (parse_u64_hex(toks[2]), parse_u64_hex(toks[3]), parse_u64_hex(toks[4]), parse_u64_hex(toks[5]))
                else { bad!() };
                let builder = HighwayBuildHasher::new(Key([a, b, c, d]));
                self.hs[h] = Some(AnyHasher::Auto(builder.build_hasher()));
                out.s("ok");
            }
            (b"bhd", 2) => {
                // `HighwayBuildHasher::default().build_hasher()`
                let h = handle!(1);
                let builder = HighwayBuildHasher::default();
                self.hs[h] = Some(AnyHasher::Auto(builder.build_hasher()));
                out.s("ok");
            }
            (b"default", 3) => {
                let h = handle!(1);
                let Some(sel) = parse_sel(toks[2]) else { bad!() };
                let r = construct(sel, false, self.cpu, None, None, true);
                out.s(if r.is_some() { "ok" } else { "none" });
                self.hs[h] = r;
            }
            (b"restore", 4) | (b"frestore", 4) => {
                let h = handle!(1);
                let Some(sel) = parse_sel(toks[2]) else { bad!() };
                let mut c = [0u8; 164];
                if unhex(toks[3], scratch) != Some(164) {
                    bad!()
                }
                c.copy_from_slice(&scratch[..164]);
                let r = construct(sel, op == b"frestore", self.cpu, None, Some(c), false);
                out.s(if r.is_some() { "ok" } else { "none" });
                self.hs[h] = r;
            }
            (b"restoreh", 4) | (b"frestoreh", 4) => {
                let h = handle!(1);
                let Some(sel) = parse_sel(toks[2]) else { bad!() };
                let src = handle!(3);
                let Some(s) = &self.hs[src] else {
                    out.s("nohandle");
                    return;
                };
                let c = each!(s, x => x.checkpoint());
                let r = construct(sel, op == b"frestoreh", self.cpu, None, Some(c), false);
                out.s(if r.is_some() { "ok" } else { "none" });
                self.hs[h] = r;
            }
            (b"clone", 3) => {
                let h = handle!(1);
                let dst = handle!(2);
                let Some(s) = &self.hs[h] else {
                    out.s("nohandle");
                    return;
                };
                let c = s.clone();
                self.hs[dst] = Some(c);
                out.s("ok");
            }
            (b"clonefrom", 3) => {
                // `dst.clone_from(&src)` when both handles hold the same hasher type (otherwise like `clone`)
                let h = handle!(1);
                let dst = handle!(2);
                if h == dst {
                    out.s(if self.hs[h].is_some() { "ok" } else { "nohandle" });
                    return;
                }
                let Some(s) = self.hs[h].clone() else {
                    out.s("nohandle");
                    return;
                };
                match (&mut self.hs[dst], &s) {
                    (Some(AnyHasher::Portable(d)), AnyHasher::Portable(x)) => d.clone_from(x),
                    (Some(AnyHasher::Auto(d)), AnyHasher::Auto(x)) => d.clone_from(x),
                    #[cfg(target_arch = "x86_64")]
                    (Some(AnyHasher::Sse(d)), AnyHasher::Sse(x)) => d.clone_from(x),
                    #[cfg(target_arch = "x86_64")]
                    (Some(AnyHasher::Avx(d)), AnyHasher::Avx(x)) => d.clone_from(x),
                    #[cfg(target_arch = "aarch64")]
                    (Some(AnyHasher::Neon(d)), AnyHasher::Neon(x)) => d.clone_from(x),
                    #[cfg(all(target_family = "wasm", target_feature = "simd128"))]
                    (Some(AnyHasher::Wasm(d)), AnyHasher::Wasm(x)) => d.clone_from(x),
                    (slot, _) => *slot = Some(s.clone()),
                }
                out.s("ok");
            }
            (b"fin", 3) => {
                let h = handle!(1);
                let Some(s) = self.hs[h].take() else {
                    out.s("nohandle");
                    return;
                };
                if !Self::fin(s, toks[2], out) {
                    bad!()
                }
            }
            (b"append", 3) | (b"hwrite", 3) | (b"iowrite", 3) | (b"writeall", 3) => {
                let h = handle!(1);
                let Some(len) = unhex(toks[2], scratch) else { bad!() };
                let Some(s) = &mut self.hs[h] else {
                    out.s("nohandle");
                    return;
                };
                let d = &scratch[..len];
                match op {
                    b"append" => {
                        each!(s, x => x.append(d));
                        out.s("ok");
                    }
                    b"hwrite" => {
                        each_t!(s, out, x => CoreHasher::write(x, d));
                        out.s("ok");
                    }
                    _ => {
                        #[cfg(feature = "std")]
                        {
                            if op == b"iowrite" {
                                let r = each_t!(s, out, x => std::io::Write::write(x, d));
                                match r {
                                    Ok(k) => {
                                        out.s("n=");
                                        out.dec(k);
                                    }
                                    Err(_) => out.s("err"),
                                }
                            } else {
                                let r = each_t!(s, out, x => std::io::Write::write_all(x, d));
                                out.s(if r.is_ok() { "ok" } else { "err" });
                            }
                        }
                        #[cfg(not(feature = "std"))]
                        out.s("unsupported");
                    }
                }
            }
            (b"iocopy", 3) => {
                let h = handle!(1);
                let Some(len) = unhex(toks[2], scratch) else { bad!() };
                let Some(s) = &mut self.hs[h] else {
                    out.s("nohandle");
                    return;
                };
                #[cfg(feature = "std")]
                {
                    let mut rd: &[u8] = &scratch[..len];
                    let r = each_t!(s, out, x => std::io::copy(&mut rd, x));
                    match r {
                        Ok(k) => {
                            out.s("n=");
                            out.dec(k as usize);
                        }
                        Err(_) => out.s("err"),
                    }
                }
                #[cfg(not(feature = "std"))]
                out.s("unsupported");
            }
            (b"ckpt", 2) | (b"finish", 2) | (b"flush", 2) | (b"drop", 2) | (b"debug", 2) => {
                let h = handle!(1);
                let Some(s) = &mut self.hs[h] else {
                    out.s("nohandle");
                    return;
                };
                match op {
                    b"ckpt" => {
                        let c = each!(s, x => x.checkpoint());
                        out.bytes_hex(&c);
                    }
                    b"finish" => {
                        let r = each_t!(s, out, x => CoreHasher::finish(&*x));
                        out.u64_hex(r);
                    }
                    b"flush" => {
                        #[cfg(feature = "std")]
                        {
                            let r = each_t!(s, out, x => std::io::Write::flush(x));
                            out.s(if r.is_ok() { "ok" } else { "err" });
                        }
                        #[cfg(not(feature = "std"))]
                        out.s("unsupported");
                    }
                    b"drop" => {
                        self.hs[h] = None;
                        out.s("ok");
                    }
                    _ => {
                        let mut fb: FixedBuf<4096> = FixedBuf::new();
                        let _ = each!(s, x => write!(fb, "{:?}", x));
                        let code = backend_code(s);
                        if code == 9 {
                            // HighwayHasher { tag: N, hasher: ... }
                            let b = fb.as_bytes();
                            let pat = b"tag: ";
                            let mut pos = None;
                            let mut i = 0;
                            while i + pat.len() <= b.len() {
                                if &b[i..i + pat.len()] == pat {
                                    pos = Some(i + pat.len());
                                    break;
                                }
                                i += 1;
                            }
                            match pos {
                                Some(p) => {
                                    let mut e = p;
                                    while e < b.len() && b[e].is_ascii_digit() {
                                        e += 1;
                                    }
                                    out.s("tag=");
                                    (out.emit)(&b[p..e]);
                                }
                                None => out.s("tag=?"),
                            }
                        } else {
                            out.s("backend=");
                            out.dec(code);
                        }
                    }
                }
            }
            (b"hash", 8) | (b"fhash", 8) => {
                let Some(sel) = parse_sel(toks[1]) else { bad!() };
                let (Some(a), Some(b), Some(c), Some(d)) =
                    (parse_u64_hex(toks[3]), parse_u64_hex(toks[4]), parse_u64_hex(toks[5]), parse_u64_hex(toks[6]))
                else { bad!() };
                let Some(len) = unhex(toks[7], scratch) else { bad!() };
                let d_ = &scratch[..len];
                let Some(h) = construct(sel, op == b"fhash", self.cpu, Some(Key([a, b, c, d])), None, false) else {
                    out.s("none");
                    return;
                };
                match toks[2] {
                    b"64" => {
                        let r = each!(h, x => x.hash64(d_));
                        out.u64_hex(r);
                    }
                    b"128" => {
                        let r = each!(h, x => x.hash128(d_));
                        out.u64_hex(r[0]);
                        out.u64_hex(r[1]);
                    }
                    b"256" => {
                        let r = each!(h, x => x.hash256(d_));
                        for v in r {
                            out.u64_hex(v);
                        }
                    }
                    _ => bad!(),
                }
            }
            _ => bad!(),
        }
    }
}
