import HH.Basic
/-!
# HH.Spec — HighwayHash, written from the algorithm description (Alakuijala, Cox, Wassenberg,
"Fast keyed hash/pseudo-random function using SIMD multiply and permute", and the reference
`highwayhash/hh_portable.h`), independently of the Rust port:

* key schedule `Reset`;
* `Update`: `v1 += mul0 + packet; mul0 ^= lo32(v1)·hi32(v0); v0 += mul1; mul1 ^= lo32(v0)·hi32(v1);
  v0 += ZipperMerge(v1); v1 += ZipperMerge(v0)`, with ZipperMerge given as the **byte permutation**
  `[3,12,2,5,14,1,15,0,11,4,10,13,9,6,8,7]` of each 128-bit half;
* `UpdateRemainder`: `v0 += (n<<32)+n`, rotate the 32-bit halves of `v1` left by `n`, then one
  update with the remainder packet given **declaratively** (`i ↦ byte i of the packet`);
* 4 / 6 / 10 `PermuteAndUpdate` rounds;
* 64-bit: `v0[0]+v1[0]+mul0[0]+mul1[0]`; 128-bit: two lane sums; 256-bit: modular reduction,
  written as one 128-bit polynomial formula `L ⊕ (H'≪1) ⊕ (H'≪2)` with `H' = H mod 2^126`.

There is no buffering here: `hashN key data` consumes the whole byte string at once.
The published test vectors are checked against this file in `HH/Props/C01.lean`.
-/
namespace HH
namespace Spec

def init0 : V4 := ⟨0xdbe6d5d5fe4cce2f#64, 0xa4093822299f31d0#64, 0x13198a2e03707344#64, 0x243f6a8885a308d3#64⟩
def init1 : V4 := ⟨0x3bd39e10cb0ef593#64, 0xc0acf169b5f18a8c#64, 0xbe5466cf34e90c6c#64, 0x452821e638d01377#64⟩

def rot32 (x : BitVec 64) : BitVec 64 := x.rotateLeft 32

def reset (k : V4) : St := ⟨V4.xor init0 k, V4.xor init1 (k.map rot32), init0, init1⟩

/-- byte `i` (0 = least significant) of the 128-bit value `hi:lo` -/
def byteOf (lo hi : BitVec 64) (i : Nat) : BitVec 8 :=
  if i < 8 then lo.extractLsb' (8*i) 8 else hi.extractLsb' (8*(i-8)) 8

def zipTbl : List Nat := [3, 12, 2, 5, 14, 1, 15, 0, 11, 4, 10, 13, 9, 6, 8, 7]

/-- ZipperMerge of one 128-bit half: output byte `j` is input byte `zipTbl[j]`. -/
def zipper (lo hi : BitVec 64) : BitVec 64 × BitVec 64 :=
  let bs := zipTbl.map (byteOf lo hi)
  (le64 (bs.take 8), le64 (bs.drop 8))

def zipperV (v : V4) : V4 :=
  let a := zipper v.l0 v.l1; let b := zipper v.l2 v.l3
  ⟨a.1, a.2, b.1, b.2⟩

/-- low 32 bits of `a` times high 32 bits of `b` (a 32×32→64 multiply) -/
def mul32 (a b : BitVec 64) : BitVec 64 := (a.setWidth 32).setWidth 64 * (b >>> 32)

def update (s : St) (p : V4) : St :=
  let v1 := V4.add (V4.add s.v1 s.mul0) p
  let mul0 := V4.xor s.mul0 (V4.zipWith mul32 v1 s.v0)
  let v0 := V4.add s.v0 s.mul1
  let mul1 := V4.xor s.mul1 (V4.zipWith mul32 v0 v1)
  let v0 := V4.add v0 (zipperV v1)
  let v1 := V4.add v1 (zipperV v0)
  ⟨v0, v1, mul0, mul1⟩

/-- a 32-byte packet as four little-endian 64-bit lanes -/
def lanesOf (bs : List (BitVec 8)) : V4 :=
  ⟨le64 (bs.take 8), le64 ((bs.drop 8).take 8), le64 ((bs.drop 16).take 8), le64 ((bs.drop 24).take 8)⟩

/-- The remainder packet for `n = bs.length < 32` trailing bytes, byte by byte:
whole 4-byte groups stay in place; for `n ≥ 16` the last four input bytes go to 28..31 (groups
that would collide with 28..31 are overwritten); for `n < 16` the `n mod 4` stragglers are
packed as `[first, middle, last]` at 16..18; everything else is zero. -/
def remPacket (bs : List (BitVec 8)) : List (BitVec 8) :=
  let n := bs.length
  let q := 4 * (n / 4)
  (List.range 32).map fun i =>
    if i < q ∧ ¬ (16 ≤ n ∧ 28 ≤ i) then bs.getD i 0
    else if 16 ≤ n then (if 28 ≤ i then bs.getD (n - 4 + (i - 28)) 0 else 0)
    else if n % 4 ≠ 0 then
      (if i = 16 then bs.getD q 0 else if i = 17 then bs.getD (q + (n % 4) / 2) 0
       else if i = 18 then bs.getD (n - 1) 0 else 0)
    else 0

/-- rotate both 32-bit halves of a lane left by `n` -/
def rot32by (n : Nat) (x : BitVec 64) : BitVec 64 :=
  let lo : BitVec 32 := x.setWidth 32
  let hi : BitVec 32 := (x >>> 32).setWidth 32
  (hi.rotateLeft n).setWidth 64 <<< 32 ||| (lo.rotateLeft n).setWidth 64

def updateRemainder (s : St) (bs : List (BitVec 8)) : St :=
  let n := bs.length
  let sz : BitVec 64 := BitVec.ofNat 64 n
  let s := { s with v0 := s.v0.map (· + ((sz <<< 32) + sz)), v1 := s.v1.map (rot32by n) }
  update s (lanesOf (remPacket bs))

/-- consume all whole packets, then the remainder (if any) -/
def absorbAll : Nat → St → List (BitVec 8) → St
  | 0, s, _ => s
  | fuel+1, s, bs =>
    if bs.length ≥ 32 then absorbAll fuel (update s (lanesOf (bs.take 32))) (bs.drop 32)
    else if bs.length = 0 then s else updateRemainder s bs

def permute (v : V4) : V4 := ⟨rot32 v.l2, rot32 v.l3, rot32 v.l0, rot32 v.l1⟩

def rounds : Nat → St → St
  | 0, s => s
  | n+1, s => rounds n (update s (permute s.v0))

def process (k : V4) (bs : List (BitVec 8)) : St := absorbAll (bs.length + 1) (reset k) bs

def hash64 (k : V4) (bs : List (BitVec 8)) : BitVec 64 :=
  let s := rounds 4 (process k bs)
  s.v0.l0 + s.v1.l0 + s.mul0.l0 + s.mul1.l0

def hash128 (k : V4) (bs : List (BitVec 8)) : BitVec 64 × BitVec 64 :=
  let s := rounds 6 (process k bs)
  (s.v0.l0 + s.mul0.l0 + s.v1.l2 + s.mul1.l2, s.v0.l1 + s.mul0.l1 + s.v1.l3 + s.mul1.l3)

/-- `(a3:a2:a1:a0) mod (x^128 + x^2 + x)` on the 256-bit value, as in the reference
`ModularReduction`: the top two bits of `a3` are dropped, `H' = (a3:a2) mod 2^126`. -/
def modred (a3 a2 a1 a0 : BitVec 64) : BitVec 64 × BitVec 64 :=
  let h : BitVec 128 := (a3 ++ a2) &&& 0x3FFFFFFFFFFFFFFFFFFFFFFFFFFFFFFF#128
  let l : BitVec 128 := a1 ++ a0
  let r := l ^^^ (h <<< 1) ^^^ (h <<< 2)
  (r.setWidth 64, (r >>> 64).setWidth 64)

def hash256 (k : V4) (bs : List (BitVec 8)) : BitVec 64 × BitVec 64 × BitVec 64 × BitVec 64 :=
  let s := rounds 10 (process k bs)
  let a := modred (s.v1.l1 + s.mul1.l1) (s.v1.l0 + s.mul1.l0) (s.v0.l1 + s.mul0.l1) (s.v0.l0 + s.mul0.l0)
  let b := modred (s.v1.l3 + s.mul1.l3) (s.v1.l2 + s.mul1.l2) (s.v0.l3 + s.mul0.l3) (s.v0.l2 + s.mul0.l2)
  (a.1, a.2, b.1, b.2)

end Spec
end HH
