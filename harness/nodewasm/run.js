// usage: node run.js <module.wasm>   - instantiates the runner, forwards env.put to stdout
const fs = require('fs');
const buf = fs.readFileSync(process.argv[2]);
let memory = null;
const chunks = [];
const env = {
  put: (ptr, len) => { chunks.push(Buffer.from(new Uint8Array(memory.buffer, ptr, len))); },
};
WebAssembly.instantiate(buf, { env }).then(({ instance }) => {
  memory = instance.exports.memory;
  let rc = 0;
  try {
    instance.exports.run();
  } catch (e) {
    rc = 3;
    chunks.push(Buffer.from("\n"));
    process.stderr.write("trap: " + e + "\n");
  }
  process.stdout.write(Buffer.concat(chunks), () => process.exit(rc));
}).catch((e) => { process.stderr.write("instantiate: " + e + "\n"); process.exit(4); });
