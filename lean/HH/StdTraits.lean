import HH.Basic
/-!
# HH.StdTraits — what the *provided* methods of `core::hash::Hasher` and the `Hash` impls of the
standard value types feed to `Hasher::write`

`impl_hasher!` (src/macros.rs) defines only `write` and `finish`; every other method of the trait
(`write_u8 … write_u128`, `write_usize`, the signed ones, `write_length_prefix`, `write_str`) is the
provided default of `core`, which forwards to `write` with the value's **native-endian** bytes.
`BuildHasher::hash_one(v)` is `let mut h = self.build_hasher(); v.hash(&mut h); h.finish()`.

This file models, per target (endianness, pointer width), the exact sequence of `write` calls that
`v.hash(&mut h)` performs for the value shapes the harness uses.  The transcription of core's `Hash`
impls is validated on every run against a *recording* `Hasher` in the runner (`hashrec` op) — i.e.
against the toolchain's own `core`, independently of the crate — and the crate's adapters are then
checked against `foldl append` over these writes (`hashone`, `hwval` ops).
-/
namespace HH.StdT

/-- the properties of the compilation target that `to_ne_bytes` / `usize` depend on -/
structure Target where
  bigEndian : Bool
  ptrBytes : Nat
deriving DecidableEq, Repr, Inhabited

/-- `n` little-endian bytes of `v` (truncating, as `as uN` does) -/
def leBytes (n : Nat) (v : Nat) : List (BitVec 8) :=
  (List.range n).map fun i => BitVec.ofNat 8 (v >>> (8 * i))

/-- `to_ne_bytes` of an `n`-byte integer -/
def neBytes (t : Target) (n : Nat) (v : Nat) : List (BitVec 8) :=
  if t.bigEndian then (leBytes n v).reverse else leBytes n v

/-- integer types; a signed type forwards to its unsigned twin (`write_i32(i) = write_u32(i as u32)`),
so only the width matters -/
inductive IntKind | w8 | w16 | w32 | w64 | w128 | wptr
deriving DecidableEq, Repr, Inhabited

def IntKind.bytes (t : Target) : IntKind → Nat
  | .w8 => 1 | .w16 => 2 | .w32 => 4 | .w64 => 8 | .w128 => 16 | .wptr => t.ptrBytes

/-- value shapes whose `Hash` impl is modelled -/
inductive Val
  | int (k : IntKind) (v : Nat)
  | bool (b : Bool)
  | char (c : Nat)
  | unit
  | bytes (b : List (BitVec 8))          -- `&[u8]`
  | str (b : List (BitVec 8))            -- `&str` (its UTF-8 bytes)
  | u32s (xs : List Nat)                 -- `&[u32]`
  | pair (a b : Val)                     -- `(A, B)`
  | opt (o : Option Val)                 -- `Option<T>`
deriving Repr, Inhabited

/-- the `Hasher::write` calls made by `v.hash(&mut h)`, in order -/
def writes (t : Target) : Val → List (List (BitVec 8))
  | .int k v => [neBytes t (k.bytes t) v]
  | .bool b => [[if b then 1 else 0]]
  | .char c => [neBytes t 4 c]
  | .unit => []
  | .bytes b => [neBytes t t.ptrBytes b.length, b]                      -- write_length_prefix; one write of the slice
  | .str b => [b, [0xff]]                                               -- write_str: bytes then 0xff
  | .u32s xs => [neBytes t t.ptrBytes xs.length, (xs.map (neBytes t 4)).flatten]
  | .pair a b => writes t a ++ writes t b
  | .opt none => [neBytes t t.ptrBytes 0]                               -- discriminant as isize
  | .opt (some v) => neBytes t t.ptrBytes 1 :: writes t v

/-- the byte stream a value contributes (what the hash may depend on) -/
def stream (t : Target) (v : Val) : List (BitVec 8) := (writes t v).flatten

theorem leBytes_length (n v : Nat) : (leBytes n v).length = n := by simp [leBytes]

theorem neBytes_length (t : Target) (n v : Nat) : (neBytes t n v).length = n := by
  unfold neBytes; split <;> simp [leBytes_length]

end HH.StdT
